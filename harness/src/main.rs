mod engine;
mod model;
mod props;
mod report;

use report::Tier;

fn usage() -> ! {
    eprintln!("usage: vharness <C01..C20> quick|thorough | replay <file> | probe <file>");
    std::process::exit(2)
}

fn main() {
    let args: Vec<String> = std::env::args().collect();
    if args.len() < 2 {
        usage();
    }
    // keep panic messages of the library under test out of the output (they are caught)
    std::panic::set_hook(Box::new(|_| {}));
    let seed: u64 = std::env::var("VERIF_SEED")
        .ok()
        .and_then(|s| s.parse().ok())
        .unwrap_or(0);
    let tier = match args.get(2).map(|s| s.as_str()) {
        Some("thorough") => Tier::Thorough,
        _ => match std::env::var("VERIF_TIER").as_deref() {
            Ok("thorough") => Tier::Thorough,
            _ => Tier::Quick,
        },
    };
    let code = match args[1].as_str() {
        "C01" => props::c01::run(tier, seed),
        "C01-child" => props::c01::run_child(tier, seed),
        "C01-one" => {
            let idx: usize = args.get(4).and_then(|s| s.parse().ok()).unwrap_or(0);
            props::c01::run_one(tier, args.get(3).map(|s| s.as_str()).unwrap_or(""), idx)
        }
        "C02" => props::c02::run(tier, seed),
        "C03" => props::c03::run(tier, seed),
        "C04" => props::c04::run(tier, seed),
        "C05" => props::c05::run(tier, seed),
        "C06" => props::c06::run(tier, seed),
        "C07" => props::c07::run(tier, seed),
        "C08" => props::c08::run(tier, seed),
        "C09" => props::c09::run(tier, seed),
        "C10" => props::c10::run(tier, seed),
        "C15" => props::c15::run(tier, seed),
        "C16" => props::c16::run(tier, seed),
        "C17" => props::c17::run(tier, seed),
        "C18" => props::c18::run(tier, seed),
        "C19" => props::c19::run(tier, seed),
        "C12" => props::c12::run(tier, seed),
        "C13" => props::c13::run(tier, seed),
        "C14" => props::c14::run(tier, seed),
        "C11" => props::c11::run(tier, seed),
        "C11-proc" => props::c11::run_proc(
            args.get(2).and_then(|s| s.parse().ok()).unwrap_or(1),
            args.get(3).map(|s| s == "rev").unwrap_or(false),
        ),
        "C11-cross" => props::c11::run_cross(&args[2..]),
        "C20" => props::c20::run(tier, seed),
        "replay" => {
            let path = args.get(2).unwrap_or_else(|| usage());
            let text = std::fs::read_to_string(path).expect("read replay file");
            let v: serde_json::Value = serde_json::from_str(&text).expect("parse replay file");
            let case: report::Case = serde_json::from_value(v["case"].clone()).expect("case");
            let f: fn(&report::Case) -> Result<(), String> = if report::predecessors(&case).is_some() {
                report::interference_check
            } else {
                if props::replay_fn(case.prop.as_str()).is_none() {
                    eprintln!("no replay for {}", case.prop);
                    std::process::exit(2)
                }
                props::replay_seeded
            };
            let r1 = f(&case);
            let r2 = f(&case);
            if r1 != r2 {
                eprintln!("MACHINERY: replay diverged: {r1:?} vs {r2:?}");
                std::process::exit(2);
            }
            match r1 {
                Ok(()) => {
                    println!("replay: property {} holds on this case ({})", case.prop, case.label);
                    0
                }
                Err(m) => {
                    println!("VIOLATION property={} replay={}", case.prop, path);
                    println!("  {} :: {}", case.label, m);
                    1
                }
            }
        }
        "seq" => {
            // child mode of the interference stage: cases from stdin, one after the other, in
            // this thread; prints the verdict strings as a JSON array
            let mut text = String::new();
            use std::io::Read;
            std::io::stdin().read_to_string(&mut text).expect("stdin");
            let cases: Vec<report::Case> = serde_json::from_str(&text).expect("cases");
            // all cases on THIS thread (thread-local state of the library survives from one case
            // to the next - that is what the stage is after), hash keys owned from a fixed base
            let base: u64 = args.get(2).and_then(|s| s.parse().ok()).unwrap_or(0x5eed);
            if let Some(sh) = engine::shim() {
                (sh.arm)(base);
            }
            let mut out: Vec<String> = Vec::new();
            for c in &cases {
                let mut c = c.clone();
                if let Some(inner) = c.expect.get("__inner").cloned() {
                    c.expect = inner;
                } else if let Some(o) = c.expect.as_object_mut() {
                    o.remove("__after");
                    o.remove("__base");
                }
                c.kind = c.kind.trim_start_matches("interference/").to_string();
                let r = match props::replay_fn(c.prop.as_str()) {
                    Some(f) => f(&c),
                    None => Err("no replay function".to_string()),
                };
                out.push(match r {
                    Ok(()) => "OK".to_string(),
                    Err(m) => m,
                });
            }
            println!("{}", serde_json::to_string(&out).unwrap());
            0
        }
        "probe" => {
            let text = std::fs::read_to_string(&args[2]).unwrap();
            let mut p = aidl_parser::Parser::new();
            p.add_content(0, &text);
            let r = p.validate();
            println!("{:#?}", r[&0]);
            0
        }
        _ => usage(),
    };
    props::remove_loader_dir();
    std::process::exit(code);
}
