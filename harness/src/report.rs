//! Evidence files, replay files, known-findings matching, exit codes.

use serde::{Deserialize, Serialize};
use serde_json::{json, Map, Value};
use std::collections::{BTreeMap, HashSet};
use std::sync::atomic::{AtomicU64, Ordering};
use std::sync::Mutex;
use std::time::Instant;

pub const VERIF_DIR: &str = "/verif";

/// Where evidence/ and replays/ are written: /verif, unless VERIF_OUT_DIR redirects them (used for
/// exploratory background runs that must not touch the registered evidence).
pub fn out_dir() -> String {
    std::env::var("VERIF_OUT_DIR").unwrap_or_else(|_| VERIF_DIR.to_string())
}

#[derive(Clone, Copy, Debug, PartialEq, Eq)]
pub enum Tier {
    Quick,
    Thorough,
}

impl Tier {
    pub fn name(self) -> &'static str {
        match self {
            Tier::Quick => "quick",
            Tier::Thorough => "thorough",
        }
    }
    pub fn pick<T>(self, quick: T, thorough: T) -> T {
        match self {
            Tier::Quick => quick,
            Tier::Thorough => thorough,
        }
    }
}

/// One explored case, self-contained enough to be re-executed from a replay file.
#[derive(Serialize, Deserialize, Clone, Debug)]
pub struct Case {
    pub prop: String,
    /// which sub-space / oracle of the property this case belongs to
    pub kind: String,
    /// human-readable origin (generator coordinates)
    pub label: String,
    /// (id, text) in insertion order
    pub files: Vec<(String, String)>,
    /// property-specific expectation and parameters, computed by the reference model
    pub expect: Value,
}

#[derive(Clone, Debug)]
pub struct Violation {
    pub case: Case,
    pub message: String,
    /// key under which a recorded known finding would list this violation (if any)
    pub finding_key: Option<String>,
}

pub fn fnv(s: &str) -> u64 {
    let mut h: u64 = 0xcbf29ce484222325;
    for b in s.as_bytes() {
        h ^= *b as u64;
        h = h.wrapping_mul(0x100000001b3);
    }
    h
}

/// Shared, thread-safe run statistics of one check.
pub struct Stats {
    pub prop: &'static str,
    pub tier: Tier,
    pub seed: u64,
    start: Instant,
    pub states: AtomicU64,
    pub transitions: AtomicU64,
    pub validated: AtomicU64,
    pub evaluations: AtomicU64,
    nontrivial: Mutex<HashSet<u64>>,
    outcomes: Mutex<BTreeMap<String, u64>>,
    samples: Mutex<Vec<Value>>,
    violations: Mutex<Vec<Violation>>,
    violation_counts: Mutex<BTreeMap<String, u64>>,
    spaces: Mutex<Vec<Value>>,
    caps: Mutex<Vec<String>>,
    extra: Mutex<Map<String, Value>>,
    pub exhaustive: Mutex<bool>,
    /// in-engine wall-clock cap (seconds): past it, explorers stop generating cases and the run
    /// reports the cap instead of calling itself exhaustive
    pub wall_cap_s: f64,
    cap_reported: std::sync::atomic::AtomicBool,
    /// representative cases (drive-call ordinal, case index, case) for the interference stage
    reps: Mutex<Vec<(u64, usize, Case)>>,
    pub drive_calls: AtomicU64,
}

impl Stats {
    pub fn new(prop: &'static str, tier: Tier, seed: u64) -> Stats {
        Stats {
            prop,
            tier,
            seed,
            start: Instant::now(),
            states: AtomicU64::new(0),
            transitions: AtomicU64::new(0),
            validated: AtomicU64::new(0),
            evaluations: AtomicU64::new(0),
            nontrivial: Mutex::new(HashSet::new()),
            outcomes: Mutex::new(BTreeMap::new()),
            samples: Mutex::new(Vec::new()),
            violations: Mutex::new(Vec::new()),
            violation_counts: Mutex::new(BTreeMap::new()),
            spaces: Mutex::new(Vec::new()),
            caps: Mutex::new(Vec::new()),
            extra: Mutex::new(Map::new()),
            exhaustive: Mutex::new(true),
            wall_cap_s: std::env::var("VERIF_WALL_CAP_S")
                .ok()
                .and_then(|v| v.parse().ok())
                .unwrap_or(match tier {
                    Tier::Quick => 600.0,
                    Tier::Thorough => 3600.0,
                }),
            cap_reported: std::sync::atomic::AtomicBool::new(false),
            reps: Mutex::new(Vec::new()),
            drive_calls: AtomicU64::new(0),
        }
    }
    /// remember a representative case for the interference stage
    pub fn rep(&self, call: u64, index: usize, case: &Case) {
        let mut r = self.reps.lock().unwrap();
        if r.len() < 4096 {
            r.push((call, index, case.clone()));
        }
    }
    /// up to `max` representatives, spread evenly over the recorded ones (deterministic)
    pub fn representatives(&self, max: usize) -> Vec<Case> {
        let mut r = self.reps.lock().unwrap().clone();
        r.sort_by(|a, b| (a.0, a.1).cmp(&(b.0, b.1)));
        r.dedup_by(|a, b| a.2.files == b.2.files && a.2.label == b.2.label);
        if r.len() <= max {
            return r.into_iter().map(|x| x.2).collect();
        }
        (0..max).map(|k| r[k * r.len() / max].2.clone()).collect()
    }
    /// true once the wall-clock cap is exceeded (reported once as a cap hit)
    pub fn past_cap(&self) -> bool {
        if self.elapsed() > self.wall_cap_s {
            if !self.cap_reported.swap(true, Ordering::Relaxed) {
                self.cap(format!(
                    "wall-clock cap of {} s reached after {} cases; the spaces listed before this point were covered completely, the current one only partly",
                    self.wall_cap_s,
                    self.states.load(Ordering::Relaxed)
                ));
            }
            return true;
        }
        false
    }
    pub fn elapsed(&self) -> f64 {
        self.start.elapsed().as_secs_f64()
    }
    /// one explored case (= one state of the explored space) checked against the library
    pub fn case_done(&self, transitions: u64) {
        self.states.fetch_add(1, Ordering::Relaxed);
        self.transitions.fetch_add(transitions, Ordering::Relaxed);
        self.validated.fetch_add(1, Ordering::Relaxed);
        self.evaluations.fetch_add(1, Ordering::Relaxed);
    }
    /// record a case as distinct & non-trivial (by digest of what makes it so)
    pub fn nontrivial(&self, digest: u64) {
        self.nontrivial.lock().unwrap().insert(digest);
    }
    pub fn outcome(&self, name: &str) {
        *self
            .outcomes
            .lock()
            .unwrap()
            .entry(name.to_string())
            .or_insert(0) += 1;
    }
    pub fn outcome_n(&self, name: &str, n: u64) {
        *self
            .outcomes
            .lock()
            .unwrap()
            .entry(name.to_string())
            .or_insert(0) += n;
    }
    pub fn outcome_count(&self, name: &str) -> u64 {
        self.outcomes
            .lock()
            .unwrap()
            .get(name)
            .copied()
            .unwrap_or(0)
    }
    pub fn sample(&self, v: Value) {
        let mut s = self.samples.lock().unwrap();
        if s.len() < 12 {
            s.push(v);
        }
    }
    pub fn want_sample(&self) -> bool {
        self.samples.lock().unwrap().len() < 12
    }
    pub fn space(&self, v: Value) {
        self.spaces.lock().unwrap().push(v);
    }
    pub fn cap(&self, what: String) {
        *self.exhaustive.lock().unwrap() = false;
        self.caps.lock().unwrap().push(what);
    }
    pub fn set(&self, k: &str, v: Value) {
        self.extra.lock().unwrap().insert(k.to_string(), v);
    }
    pub fn violation(&self, v: Violation) {
        let key = v.finding_key.clone().unwrap_or_default();
        let mut counts = self.violation_counts.lock().unwrap();
        let c = counts.entry(key.clone()).or_insert(0);
        *c += 1;
        // keep every unkeyed violation up to a cap, and a few representatives per finding key;
        // beyond the cap still keep a few per case kind, so that a later stage of the same check
        // (another kind of case) is never starved by an earlier, noisier one
        let cap = if key.is_empty() { 300 } else { 8 };
        let per_kind = {
            let k = counts.entry(format!("\u{0}kind:{}", v.case.kind)).or_insert(0);
            *k += 1;
            *k
        };
        let c = counts.get(&key).copied().unwrap_or(0);
        if c <= cap || (key.is_empty() && per_kind <= 12) {
            self.violations.lock().unwrap().push(v);
        }
    }
    pub fn violation_totals(&self) -> BTreeMap<String, u64> {
        self.violation_counts.lock().unwrap().iter().filter(|(k, _)| !k.starts_with('\u{0}')).map(|(k, v)| (k.clone(), *v)).collect()
    }
    pub fn violation_count(&self) -> usize {
        self.violations.lock().unwrap().len()
    }
    pub fn take_violations(&self) -> Vec<Violation> {
        std::mem::take(&mut *self.violations.lock().unwrap())
    }
}

#[derive(Debug, Clone)]
pub struct KnownFinding {
    pub prop: String,
    pub key: String,
    pub text: String,
}

pub fn load_known_findings() -> Vec<KnownFinding> {
    let path = format!("{VERIF_DIR}/known-findings.txt");
    let mut v = Vec::new();
    if let Ok(s) = std::fs::read_to_string(path) {
        for line in s.lines() {
            let line = line.trim();
            // finding: property=C20 key=<key> <description>
            if let Some(rest) = line.strip_prefix("finding:") {
                let mut prop = String::new();
                let mut key = String::new();
                let mut text = Vec::new();
                for w in rest.split_whitespace() {
                    if let Some(p) = w.strip_prefix("property=") {
                        if prop.is_empty() {
                            prop = p.to_string();
                            continue;
                        }
                    }
                    if let Some(k) = w.strip_prefix("key=") {
                        if key.is_empty() {
                            key = k.to_string();
                            continue;
                        }
                    }
                    text.push(w);
                }
                if !prop.is_empty() && !key.is_empty() {
                    v.push(KnownFinding {
                        prop,
                        key,
                        text: text.join(" "),
                    });
                }
            }
        }
    }
    v
}

/// Run the given cases one after the other in ONE fresh child process (single thread) and return
/// the verdict string of each ("OK" or the failure text). Used by the interference stage: a case
/// must give the same verdict alone and after any other case (process-global / thread-local state).
pub fn seq_results(cases: &[Case]) -> Result<Vec<String>, String> {
    seq_results_with(cases, 0x5eed)
}

/// `seq_results` with the hash-key base the child arms its (single) thread with.
pub fn seq_results_with(cases: &[Case], base: u64) -> Result<Vec<String>, String> {
    use std::io::Write;
    let exe = std::env::current_exe().map_err(|e| e.to_string())?;
    let mut child = std::process::Command::new(exe)
        .arg("seq")
        .arg(base.to_string())
        .stdin(std::process::Stdio::piped())
        .stdout(std::process::Stdio::piped())
        .stderr(std::process::Stdio::null())
        .spawn()
        .map_err(|e| format!("cannot start child process: {e}"))?;
    let text = serde_json::to_string(cases).map_err(|e| e.to_string())?;
    {
        let mut stdin = child.stdin.take().ok_or("no stdin")?;
        // write from a thread so that a child that prints a lot cannot deadlock us
        let h = std::thread::spawn(move || {
            let _ = stdin.write_all(text.as_bytes());
        });
        let _ = h.join();
    }
    let out = child.wait_with_output().map_err(|e| e.to_string())?;
    let s = String::from_utf8_lossy(&out.stdout);
    let v: Vec<String> = serde_json::from_str(s.trim()).map_err(|e| format!("child output unreadable ({e}): {}", s.chars().take(200).collect::<String>()))?;
    if v.len() != cases.len() {
        return Err(format!("child returned {} verdicts for {} cases", v.len(), cases.len()));
    }
    Ok(v)
}

/// The predecessors stored in a case by the interference stage (`expect.__after`).
pub fn predecessors(case: &Case) -> Option<Vec<Case>> {
    let a = case.expect.get("__after")?;
    if a.is_null() {
        return None;
    }
    serde_json::from_value(a.clone()).ok()
}

/// Verdict of an interference case: the case alone in a fresh process vs after its predecessors.
pub fn interference_check(case: &Case) -> Result<(), String> {
    let before = predecessors(case).unwrap_or_default();
    let base = case.expect.get("__base").and_then(|b| b.as_u64());
    let mut plain = case.clone();
    if let Some(o) = plain.expect.as_object_mut() {
        o.remove("__after");
        o.remove("__base");
    }
    plain.kind = plain.kind.trim_start_matches("interference/").to_string();
    // reference: the case by itself in a fresh process (keys as in the stage that found it)
    let alone_base = if base.is_some() { crate::props::case_seed(&plain) } else { 0x5eed };
    let alone = seq_results_with(std::slice::from_ref(&plain), alone_base).map_err(|e| format!("MACHINERY: {e}"))?;
    let mut all = before.clone();
    all.push(plain);
    let after = seq_results_with(&all, base.unwrap_or(0x5eed)).map_err(|e| format!("MACHINERY: {e}"))?;
    if alone.last() != after.last() {
        return Err(format!(
            "the verdict for this case depends on what the process did before (or on the hash keys of its thread): alone `{}`, after {} other case(s) [{}] `{}`",
            alone.last().map(|s| s.chars().take(300).collect::<String>()).unwrap_or_default(),
            before.len(),
            before.iter().rev().take(3).map(|c| c.label.chars().take(80).collect::<String>()).collect::<Vec<_>>().join(" ; "),
            after.last().map(|s| s.chars().take(300).collect::<String>()).unwrap_or_default()
        ));
    }
    Ok(())
}

/// Interference stage (all checks): every ordered pair of up to 20 representative cases is run
/// in a fresh single-threaded child process; the second case must get the verdict it gets alone.
fn interference_stage(stats: &Stats) -> (Vec<Violation>, Value) {
    use rayon::prelude::*;
    if std::env::var("VERIF_NO_INTERFERENCE").is_ok() {
        return (Vec::new(), json!({"skipped": "VERIF_NO_INTERFERENCE"}));
    }
    let reps: Vec<Case> = stats.representatives(24).into_iter().filter(|c| predecessors(c).is_none()).collect();
    if reps.len() < 2 {
        return (Vec::new(), json!({"representatives": reps.len(), "ordered_pairs": 0}));
    }
    let alone: Vec<Result<Vec<String>, String>> = reps.par_iter().map(|c| seq_results(std::slice::from_ref(c))).collect();
    let pairs: Vec<(usize, usize)> = (0..reps.len()).flat_map(|a| (0..reps.len()).map(move |b| (a, b))).collect();
    let res: Vec<((usize, usize), Result<Vec<String>, String>)> = pairs
        .par_iter()
        .map(|(a, b)| ((*a, *b), seq_results(&[reps[*a].clone(), reps[*b].clone()])))
        .collect();
    let mut out = Vec::new();
    let mut machinery = 0;
    for ((a, b), r) in res {
        match (&alone[b], &r) {
            (Ok(x), Ok(y)) => {
                if x.last() != y.last() {
                    let mut case = reps[b].clone();
                    if !case.expect.is_object() {
                        case.expect = json!({"__inner": case.expect});
                    }
                    case.expect["__after"] = json!([reps[a]]);
                    case.kind = format!("interference/{}", case.kind);
                    out.push(Violation {
                        message: format!(
                            "the verdict for this case depends on what the process did before: alone `{}`, after [{}] `{}`",
                            x.last().map(|s| s.chars().take(300).collect::<String>()).unwrap_or_default(),
                            reps[a].label.chars().take(120).collect::<String>(),
                            y.last().map(|s| s.chars().take(300).collect::<String>()).unwrap_or_default()
                        ),
                        case,
                        finding_key: None,
                    });
                }
            }
            _ => machinery += 1,
        }
    }
    // the whole list in one process, forward and reversed (state that needs many calls to build up)
    for rev in [false, true] {
        let order: Vec<usize> = if rev { (0..reps.len()).rev().collect() } else { (0..reps.len()).collect() };
        let list: Vec<Case> = order.iter().map(|i| reps[*i].clone()).collect();
        match seq_results(&list) {
            Ok(vs) => {
                for (pos, i) in order.iter().enumerate() {
                    if let Ok(x) = &alone[*i] {
                        if x.last() != vs.get(pos) {
                            let mut case = reps[*i].clone();
                            if !case.expect.is_object() {
                                case.expect = json!({"__inner": case.expect});
                            }
                            case.expect["__after"] = json!(list[..pos].to_vec());
                            case.kind = format!("interference/{}", case.kind);
                            out.push(Violation {
                                message: format!(
                                    "the verdict for this case depends on what the process did before: alone `{}`, after {} other cases `{}`",
                                    x.last().map(|s| s.chars().take(300).collect::<String>()).unwrap_or_default(),
                                    pos,
                                    vs.get(pos).map(|s| s.chars().take(300).collect::<String>()).unwrap_or_default()
                                ),
                                case,
                                finding_key: None,
                            });
                            break;
                        }
                    }
                }
            }
            Err(_) => machinery += 1,
        }
    }
    // long run: up to 96 representatives one after the other, then the same list again, in one
    // process; the second verdict of every case must equal its first (caches with eviction,
    // counters that saturate, state that needs dozens of calls to build up)
    let long: Vec<Case> = stats.representatives(96).into_iter().filter(|c| predecessors(c).is_none()).collect();
    let mut long_len = 0;
    if long.len() > reps.len() {
        long_len = long.len();
        let mut twice = long.clone();
        twice.extend(long.iter().cloned());
        match seq_results(&twice) {
            Ok(vs) => {
                for i in 0..long.len() {
                    if vs[i] != vs[i + long.len()] {
                        let mut case = long[i].clone();
                        if !case.expect.is_object() {
                            case.expect = json!({"__inner": case.expect});
                        }
                        case.expect["__after"] = json!(twice[..i + long.len()].to_vec());
                        case.kind = format!("interference/{}", case.kind);
                        out.push(Violation {
                            message: format!(
                                "the verdict for this case changes when it is repeated after {} other cases in the same process: first `{}`, then `{}`",
                                long.len(),
                                vs[i].chars().take(300).collect::<String>(),
                                vs[i + long.len()].chars().take(300).collect::<String>()
                            ),
                            case,
                            finding_key: None,
                        });
                        break;
                    }
                }
            }
            Err(_) => machinery += 1,
        }
    }
    let n = reps.len();
    (out, json!({"representatives": n, "ordered_pairs": n * n, "whole_list_runs": 2, "long_run_cases": long_len * 2, "child_processes": n * n + n + 2, "child_failures": machinery}))
}

/// Final step of every check: confirm violations by replaying them twice, write replay
/// files and the evidence file, print the verdict lines. Returns the process exit code.
pub fn finish(
    stats: &Stats,
    rule: &str,
    assumptions: &[&str],
    recheck: &(dyn Fn(&Case) -> Result<(), String> + Sync),
    floors: &[(&str, bool)],
) -> i32 {
    let known = load_known_findings();
    let (interference, interference_cov) = interference_stage(stats);
    for v in interference {
        stats.violation(v);
    }
    stats.set("interference_stage", interference_cov);
    let totals = stats.violation_totals();
    let violations = stats.take_violations();
    let mut confirmed: Vec<Violation> = Vec::new();
    let mut known_hits: BTreeMap<String, (String, u64, Case)> = BTreeMap::new();
    let mut machinery_errors = Vec::new();
    for v in violations {
        // replay twice from the case alone (no explorer state); interference cases are replayed
        // in fresh child processes together with their predecessors
        let (r1, r2) = if predecessors(&v.case).is_some() {
            (interference_check(&v.case), interference_check(&v.case))
        } else {
            let seed = crate::props::case_seed(&v.case);
            (
                crate::engine::seeded(seed, || recheck(&v.case)),
                crate::engine::seeded(seed, || recheck(&v.case)),
            )
        };
        match (&r1, &r2) {
            (Err(a), Err(b)) if a == b => {}
            (Ok(()), Ok(())) => {
                machinery_errors.push(format!(
                    "violation not reproduced on replay (un-owned nondeterminism?): {} / {}",
                    v.case.label, v.message
                ));
                continue;
            }
            _ => {
                machinery_errors.push(format!(
                    "replay diverged: {} : {:?} vs {:?}",
                    v.case.label, r1, r2
                ));
                continue;
            }
        }
        if let Some(k) = &v.finding_key {
            if let Some(kf) = known.iter().find(|f| f.prop == stats.prop && &f.key == k) {
                known_hits.entry(k.clone()).or_insert((
                    kf.text.clone(),
                    totals.get(k).copied().unwrap_or(1),
                    v.case.clone(),
                ));
                continue;
            }
        }
        confirmed.push(v);
    }
    let out = out_dir();
    let _ = std::fs::create_dir_all(format!("{out}/replays"));
    let _ = std::fs::create_dir_all(format!("{out}/evidence"));
    let mut printed = 0;
    let mut replay_paths = Vec::new();
    // smallest first
    confirmed.sort_by_key(|v| {
        (
            v.case.files.iter().map(|f| f.1.len()).sum::<usize>(),
            v.case.label.clone(),
        )
    });
    for v in &confirmed {
        if printed >= 10 {
            break;
        }
        let body = json!({
            "property": stats.prop,
            "message": v.message,
            "finding_key": v.finding_key,
            "case": v.case,
        });
        let text = serde_json::to_string_pretty(&body).unwrap();
        let path = format!(
            "{out}/replays/{}-{:016x}.json",
            stats.prop,
            fnv(&text)
        );
        let _ = std::fs::write(&path, &text);
        println!("VIOLATION property={} replay={}", stats.prop, path);
        println!("  {} :: {}", v.case.label, v.message.replace('\n', "\n  "));
        replay_paths.push(path);
        printed += 1;
    }
    for (k, (text, n, case)) in &known_hits {
        println!(
            "KNOWN-FINDING: property={} key={} ({} occurrences this run, e.g. {}) {}",
            stats.prop, k, n, case.label, text
        );
    }
    let mut floor_fail = Vec::new();
    for (name, ok) in floors {
        if !ok {
            floor_fail.push(name.to_string());
        }
    }
    let exhaustive = *stats.exhaustive.lock().unwrap();
    let mut coverage = Map::new();
    let nontrivial = stats.nontrivial.lock().unwrap().len() as u64;
    coverage.insert("states".into(), json!(stats.states.load(Ordering::Relaxed)));
    coverage.insert(
        "transitions".into(),
        json!(stats.transitions.load(Ordering::Relaxed)),
    );
    coverage.insert(
        "traces_validated_against_impl".into(),
        json!(stats.validated.load(Ordering::Relaxed)),
    );
    coverage.insert(
        "evaluations".into(),
        json!(stats.evaluations.load(Ordering::Relaxed)),
    );
    coverage.insert("distinct_nontrivial".into(), json!(nontrivial));
    coverage.insert("rule".into(), json!(rule));
    coverage.insert("exhaustive".into(), json!(exhaustive));
    coverage.insert(
        "samples".into(),
        Value::Array(stats.samples.lock().unwrap().clone()),
    );
    coverage.insert(
        "spaces".into(),
        Value::Array(stats.spaces.lock().unwrap().clone()),
    );
    coverage.insert("caps_hit".into(), json!(*stats.caps.lock().unwrap()));
    coverage.insert(
        "outcomes".into(),
        json!(*stats.outcomes.lock().unwrap()),
    );
    coverage.insert(
        "known_findings_seen".into(),
        json!(known_hits
            .iter()
            .map(|(k, v)| json!({"key": k, "occurrences": v.1}))
            .collect::<Vec<_>>()),
    );
    coverage.insert("replay_files".into(), json!(replay_paths));
    coverage.insert("machinery_errors".into(), json!(machinery_errors));
    coverage.insert("floors_failed".into(), json!(floor_fail));
    for (k, v) in stats.extra.lock().unwrap().iter() {
        coverage.insert(k.clone(), v.clone());
    }
    let ev = json!({
        "property_id": stats.prop,
        "tier": stats.tier.name(),
        "seed": stats.seed,
        "level": "model_checking",
        "coverage": Value::Object(coverage),
        "assumptions": assumptions,
        "wall_s": stats.elapsed(),
        "violations": confirmed.len(),
    });
    let path = format!("{out}/evidence/{}.json", stats.prop);
    std::fs::write(&path, serde_json::to_string_pretty(&ev).unwrap()).expect("write evidence");
    println!(
        "{} {}: states={} transitions={} validated={} nontrivial={} exhaustive={} violations={} known={} wall={:.1}s",
        stats.prop,
        stats.tier.name(),
        stats.states.load(Ordering::Relaxed),
        stats.transitions.load(Ordering::Relaxed),
        stats.validated.load(Ordering::Relaxed),
        nontrivial,
        exhaustive,
        confirmed.len(),
        known_hits.len(),
        stats.elapsed()
    );
    println!("  outcomes: {:?}", stats.outcomes.lock().unwrap());
    if !confirmed.is_empty() {
        return 1;
    }
    if !machinery_errors.is_empty() {
        for m in &machinery_errors {
            eprintln!("MACHINERY: {m}");
        }
        return 2;
    }
    if !floor_fail.is_empty() {
        eprintln!("MACHINERY: non-vacuity floors failed: {floor_fail:?}");
        return 2;
    }
    0
}
