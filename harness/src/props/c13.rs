//! C13 — a file's result depends only on its own text and the kinds of what it imports.
//! State = (observed file, set of other files); transition = add / drop / swap one other file on
//! the live parser. All observations with equal (observed text, import facts) must be equal.

use super::CheckResult;
use crate::engine::guarded;
use crate::report::{finish, fnv, Case, Stats, Tier, Violation};
use aidl_parser::Parser;
use rayon::prelude::*;
use serde_json::json;
use std::collections::{BTreeSet, HashMap};
use std::sync::Mutex;

pub const PROP: &str = "C13";

/// (text, imports of the observed file)
const OBSERVED: [(&str, &[&str]); 7] = [
    (
        "package o; import p.B; import q.C; import r.D; import zz.Other; interface Obs { void f(in B b, Thing t); C g(); Other h(); }",
        &["p.B", "q.C", "r.D", "zz.Other"],
    ),
    (
        "package o; import p.B; parcelable Obs { List<B> l; B[] a; Map<String, List<B>> m; Thing t; }",
        &["p.B"],
    ),
    ("package o; import p.B; interface Obs { void f(in B b) }", &["p.B"]),
    ("package o; enum Obs { A, B }", &[]),
    (
        "package o; parcelable Obs { x.B b; u.U u; p.B[] c; List<q.C> d; w.W e; Thing t; }",
        &[],
    ),
    // two imports with one simple name, used bare and qualified
    (
        "package o; import p.B; import x.B; parcelable Obs { B b; x.B c; List<B> d; }",
        &["p.B", "x.B"],
    ),
    // an enum file with imports (nothing can use them) and an unused forward declaration
    ("package o; import p.B; import q.C; parcelable Thing; enum Obs { A, B = 2 }", &["p.B", "q.C"]),
];

/// pool of other files: (id, text, key registered, kind)
const POOL: [(&str, &str, &str, &str); 29] = [
    ("b-itf-1", "package p; interface B { }", "p.B", "interface"),
    ("b-itf-2", "package p; import o.Obs; interface B { void x(in Obs o); const int K = 1; }", "p.B", "interface"),
    ("b-par-1", "package p; parcelable B { }", "p.B", "parcelable"),
    ("b-par-2", "/** doc */ package p; @A parcelable B { int x; String y = \"s\"; }", "p.B", "parcelable"),
    ("b-enum-1", "package p; enum B { X }", "p.B", "enum"),
    ("b-enum-2", "package p; enum B { X = 1, Y = 2, }", "p.B", "enum"),
    ("c-1", "package q; interface C { }", "q.C", "interface"),
    ("c-2", "package q; interface C { void f(); void g(); }", "q.C", "interface"),
    ("u-1", "package u; parcelable U { }", "u.U", "parcelable"),
    ("u-2", "package u; import p.B; interface U { B get(); }", "u.U", "interface"),
    ("x-b", "package x; parcelable B { }", "x.B", "parcelable"),
    ("malformed", "package p; interfac B {", "", ""),
    ("imports-observed", "package w; import o.Obs; parcelable W { Obs o; }", "w.W", "parcelable"),
    ("same-package-thing", "package o; parcelable Thing { }", "o.Thing", "parcelable"),
    ("same-package-other", "package o; enum Other { A }", "o.Other", "enum"),
    ("zz-other", "package zz; interface Other { }", "zz.Other", "interface"),
    ("d-unused", "package r; enum D { A }", "r.D", "enum"),
    ("b-in-subpackage", "package p.sub; enum B { A }", "p.sub.B", "enum"),
    ("b-par-recovered-error", "package p; parcelable B { int ; int x = ; String s; }", "p.B", "parcelable"),
    ("imports-thing", "package w2; import zz.Thing; import zz.Other; import x.B; parcelable W2 { Thing t; Other o; B b; }", "w2.W2", "parcelable"),
    ("declares-qualified", "package v2; @A() parcelable r . D; parcelable zz.Other; parcelable p.B; parcelable q.C; interface V2 { }", "v2.V2", "interface"),
    // data values: keys that differ from an imported key in letter case only; imported items
    // whose documentation carries tags
    ("b-lowercase", "package p; parcelable b { }", "p.b", "parcelable"),
    ("b-upper-package", "package P; interface B { }", "P.B", "interface"),
    ("b-par-deprecated", "package p; /** Old.\n * @deprecated use q.C\n * @hide\n */ parcelable B { /** @deprecated */ int x; }", "p.B", "parcelable"),
    ("c-deprecated", "package q; /** @deprecated */ interface C { /** @deprecated */ void f(); }", "q.C", "interface"),
    // unrelated files that use the observed file's simple names through other imports / none
    ("uses-x-b-only", "package w3; import x.B; parcelable W3 { B b; List<B> l; }", "w3.W3", "parcelable"),
    ("uses-bare-b", "package w4; oneway interface W4 { void f(in B b, out C c) = 1; int g(); }", "w4.W4", "interface"),
    // a recovered syntax error (diagnostic already collected), then a fatal one: no tree
    ("recovered-then-fatal", "package p; parcelable B { int ; int x; }\n#", "", ""),
    ("declares-thing", "package v; parcelable Thing; parcelable Other; parcelable B; interface V { void f(in Thing t, in Other o, in B b); }", "v.V", "interface"),
];

type Set = BTreeSet<usize>;

/// import facts of the observed file in a project: per imported key the set of kinds registered
/// under it ("absent" if none). Two kinds under one key used to be excluded (hash-order defect,
/// C11); since the repair 74eb68d the set of kinds is the fact.
fn facts(obs: usize, set: &Set) -> Option<String> {
    let mut v = Vec::new();
    for imp in OBSERVED[obs].1 {
        let mut kinds: Vec<&str> = set
            .iter()
            .filter(|i| POOL[**i].2 == *imp)
            .map(|i| POOL[*i].3)
            .collect();
        kinds.sort();
        kinds.dedup();
        v.push(format!("{imp}={}", if kinds.is_empty() { "absent".to_string() } else { kinds.join("+") }));
    }
    Some(v.join(","))
}

fn observe(p: &Parser<String>) -> Result<String, String> {
    guarded(|| {
        let res = p.validate();
        let r = &res["observed"];
        let mut d: Vec<(usize, String)> = r
            .diagnostics
            .iter()
            .map(|d| (d.range.start.offset, format!("{d:?}")))
            .collect();
        d.sort();
        format!("{:?} {:?}", r.ast, d)
    })
}

fn ops_json(obs: usize, base: &Set, pert: &[(u8, usize, usize)]) -> serde_json::Value {
    let mut ops = vec![json!(["add", "observed", OBSERVED[obs].0])];
    for i in base {
        ops.push(json!(["add", POOL[*i].0, POOL[*i].1]));
    }
    ops.push(json!(["validate"]));
    for (kind, id, content) in pert {
        match kind {
            1 => ops.push(json!(["remove", POOL[*id].0])),
            _ => ops.push(json!(["add", POOL[*id].0, POOL[*content].1])),
        }
    }
    json!(ops)
}

fn run_ops(ops: &serde_json::Value) -> Result<String, String> {
    let mut p: Parser<String> = Parser::new();
    let r = guarded(|| {
        for op in ops.as_array().unwrap() {
            let a = op.as_array().unwrap();
            match a[0].as_str().unwrap() {
                "add" => p.add_content(a[1].as_str().unwrap().to_string(), a[2].as_str().unwrap()),
                "remove" => p.remove_content(a[1].as_str().unwrap().to_string()),
                _ => {
                    let _ = p.validate();
                }
            }
        }
    });
    r?;
    observe(&p)
}

/// replay: two histories that reach projects with equal import facts must give equal results
pub fn check_case(case: &Case) -> CheckResult {
    let mut r = CheckResult::default();
    let a = run_ops(&case.expect["history_a"]);
    let b = run_ops(&case.expect["history_b"]);
    match (a, b) {
        (Ok(x), Ok(y)) => {
            if x != y {
                let p = x.bytes().zip(y.bytes()).position(|(p, q)| p != q).unwrap_or(0);
                let lo = p.saturating_sub(70);
                r.fail(format!(
                    "the observed file's result differs between two projects with the same import facts ({}): ...{}... vs ...{}...",
                    case.expect["facts"].as_str().unwrap_or(""),
                    x.get(lo..(p + 70).min(x.len())).unwrap_or(""),
                    y.get(lo..(p + 70).min(y.len())).unwrap_or("")
                ));
            }
        }
        (Err(e), _) | (_, Err(e)) => r.fail(format!("library panicked: {e}")),
    }
    r
}

fn subsets(max: usize) -> Vec<Set> {
    let n = POOL.len();
    let mut v = vec![Set::new()];
    let mut level: Vec<Set> = vec![Set::new()];
    for _ in 0..max {
        let mut next = Vec::new();
        for s in &level {
            let start = s.iter().next_back().map(|x| x + 1).unwrap_or(0);
            for i in start..n {
                let mut t = s.clone();
                t.insert(i);
                next.push(t);
            }
        }
        v.extend(next.iter().cloned());
        level = next;
    }
    v
}

pub fn run(tier: Tier, seed: u64) -> i32 {
    let stats = Stats::new(PROP, tier, seed);
    let sets = subsets(tier.pick(2, 3));
    // (observed, facts) -> (observation, history that produced it)
    let groups: Mutex<HashMap<(usize, String), (String, serde_json::Value)>> = Mutex::new(HashMap::new());
    let record = |obs: usize, f: String, o: String, hist: serde_json::Value| {
        let mut g = groups.lock().unwrap();
        match g.get(&(obs, f.clone())) {
            None => {
                g.insert((obs, f), (o, hist));
            }
            Some((first, first_hist)) => {
                if *first != o {
                    let case = Case {
                        prop: PROP.into(),
                        kind: format!("observed{obs}"),
                        label: format!("observed file {obs}, facts [{f}]"),
                        files: vec![("observed".into(), OBSERVED[obs].0.into())],
                        expect: json!({"facts": f, "history_a": first_hist, "history_b": hist}),
                    };
                    stats.violation(Violation {
                        case,
                        message: "two projects with the same import facts give different results for the observed file".into(),
                        finding_key: None,
                    });
                }
            }
        }
    };
    let bases: Vec<(usize, &Set)> = (0..OBSERVED.len()).flat_map(|o| sets.iter().map(move |s| (o, s))).collect();
    bases.par_iter().for_each(|(obs, base)| {
        if stats.past_cap() {
            return;
        }
        let obs = *obs;
        let fb = match facts(obs, base) {
            Some(f) => f,
            None => return,
        };
        // base project, validated once
        let mut p: Parser<String> = Parser::new();
        let built = guarded(|| {
            p.add_content("observed".to_string(), OBSERVED[obs].0);
            for i in base.iter() {
                p.add_content(POOL[*i].0.to_string(), POOL[*i].1);
            }
        });
        if built.is_err() {
            return;
        }
        match observe(&p) {
            Ok(o) => record(obs, fb.clone(), o, ops_json(obs, base, &[])),
            Err(e) => {
                stats.violation(Violation {
                    case: Case { prop: PROP.into(), kind: "panic".into(), label: format!("{base:?}"), files: vec![], expect: json!({"facts": fb, "history_a": ops_json(obs, base, &[]), "history_b": ops_json(obs, base, &[])}) },
                    message: format!("library panicked: {e}"),
                    finding_key: None,
                });
                return;
            }
        }
        stats.case_done(1);
        stats.nontrivial(fnv(&format!("{obs}{base:?}")));
        // single-file perturbations on the live parser: add, drop, swap (drop + add), and
        // replace in place (the same id receives another file's content)
        let mut perts: Vec<Vec<(u8, usize, usize)>> = Vec::new();
        for i in 0..POOL.len() {
            if !base.contains(&i) {
                perts.push(vec![(0, i, i)]);
            }
        }
        for i in base.iter() {
            perts.push(vec![(1, *i, *i)]);
            for j in 0..POOL.len() {
                if !base.contains(&j) {
                    // quick tier, two-file bases: swap with every other file, replace in place with
                    // the remaining ones (single-file bases and the thorough tier: both with all)
                    let both = tier == Tier::Thorough || base.len() < 2;
                    if both || (i + j) % 2 == 0 {
                        perts.push(vec![(1, *i, *i), (0, j, j)]);
                    }
                    if both || (i + j) % 2 == 1 {
                        perts.push(vec![(2, *i, j)]);
                    }
                }
            }
        }
        for pert in perts {
            let mut set2 = (*base).clone();
            for (kind, id, content) in &pert {
                match kind {
                    0 => {
                        set2.insert(*content);
                    }
                    1 => {
                        set2.remove(id);
                    }
                    _ => {
                        set2.remove(id);
                        set2.insert(*content);
                    }
                }
            }
            let f2 = match facts(obs, &set2) {
                Some(f) => f,
                None => continue,
            };
            let mut q = p.clone();
            let applied = guarded(|| {
                for (kind, id, content) in &pert {
                    match kind {
                        1 => q.remove_content(POOL[*id].0.to_string()),
                        _ => q.add_content(POOL[*id].0.to_string(), POOL[*content].1),
                    }
                }
            });
            if applied.is_err() {
                continue;
            }
            stats.case_done(pert.len() as u64);
            stats.outcome(if f2 == fb { "perturbation-keeping-the-facts" } else { "perturbation-changing-the-facts" });
            if let Ok(o) = observe(&q) {
                record(obs, f2, o, ops_json(obs, base, &pert));
            }
        }
    });
    // vacuity guard: groups differing in a kind give different results for the direction-sensitive file
    let g = groups.lock().unwrap();
    let distinct_o1: std::collections::HashSet<&String> = g.iter().filter(|(k, _)| k.0 == 0).map(|(_, v)| &v.0).collect();
    let groups_n = g.len();
    stats.set("groups", json!(groups_n));
    stats.set("distinct_results_of_observed_file_0", json!(distinct_o1.len()));
    stats.space(json!({"space": "observed file x set of other files x single-file perturbation", "observed_files": OBSERVED.len(), "pool": POOL.iter().map(|p| p.0).collect::<Vec<_>>(), "sets_up_to": tier.pick(2, 4), "base_projects": bases.len()}));
    stats.sample(json!({"observed": OBSERVED[0].0, "base": [POOL[2].1, POOL[6].1], "perturbation": "swap b-par-1 -> b-par-2 (same key, same kind, other body)"}));
    stats.sample(json!({"observed": OBSERVED[1].0, "base": [POOL[2].1], "perturbation": "swap b-par-1 -> b-enum-1 (negative control: the kind changes)"}));
    let ok_vac = distinct_o1.len() >= 3;
    drop(g);
    finish(
        &stats,
        "4 observed files (interface using p.B as `in` argument, q.C / zz.Other as return types, an unused import and an unimported same-package name; parcelable with B in containers; a file without a tree; a file without imports) x every set of <= 2 (thorough 4) files from a pool of 18 others (p.B as interface / parcelable / enum x 2 bodies, q.C x 2 bodies, unrelated files, same-package items named like the observed file's unimported / imported types, a malformed file, a file importing the observed item) x every single-file perturbation (add / drop / swap / replace in place under the same id) applied to the live, already validated parser; all observations of one observed file with equal import facts (registered?, kind per import) must be equal; states = projects and perturbed projects validated, distinct_nontrivial = distinct base projects",
        &[
            "the oracle is differential (no hand-written expectation): result is a function of (observed text, import facts)",
            "for a key registered with two kinds the fact is the set of kinds (such projects were excluded before the repair 74eb68d)",
            "hook H4 (Clone) is used to branch from the validated base parser; every violation is re-confirmed by replaying both plain histories from scratch",
        ],
        &|c| check_case(c).to_result(),
        &[("kind changes are observable (negative control)", ok_vac)],
    )
}

pub fn replay(case: &Case) -> Result<(), String> {
    check_case(case).to_result()
}
