//! C03 — syntax verdicts agree with the grammar; failure is never silent.

use super::seqspace::{self, Space};
use super::{is_error, run_files, tree_identifiers, CheckResult};
use crate::model::lex::is_forbidden_name;
use crate::model::verdict::verdict;
use crate::report::{finish, fnv, Case, Stats, Tier};
use serde_json::json;

pub const PROP: &str = "C03";

/// The text spaces of C03 (shared with C20 and the malformed half of C04).
pub fn spaces(tier: Tier) -> Vec<Space> {
    let mut v = Vec::new();
    match tier {
        Tier::Quick => {
            for f in 0..16 {
                let k = if (4..=6).contains(&f) { 3 } else { 2 };
                v.push(seqspace::eseq(f, k));
            }
            for s in 0..6 {
                v.push(seqspace::eedit1(s));
                v.push(seqspace::epfx(s));
            }
            v.push(seqspace::echar(0, 3));
            v.push(seqspace::echar(1, 3));
            v.push(seqspace::echar(2, 4));
        }
        Tier::Thorough => {
            for f in 0..16 {
                let k = if (4..=6).contains(&f) { 4 } else { 3 };
                v.push(seqspace::eseq(f, k));
            }
            for s in 0..6 {
                v.push(seqspace::eedit1(s));
                v.push(seqspace::epfx(s));
            }
            v.push(seqspace::eedit2(4));
            v.push(seqspace::eedit2(5));
            v.push(seqspace::echar(0, 4));
            v.push(seqspace::echar(1, 4));
            v.push(seqspace::echar(2, 5));
        }
    }
    v.push(seqspace::keyword_table());
    v.push(seqspace::unicode_words());
    v.push(seqspace::lexeme_variants());
    v
}

/// The same spaces without the deepest token-sequence trees (used by C04's quick tier, whose
/// exact part is already large).
pub fn spaces_light(tier: Tier) -> Vec<Space> {
    let mut v = spaces(tier);
    if tier == Tier::Quick {
        for sp in v.iter_mut() {
            if sp.name.starts_with("E-SEQ/F4") || sp.name.starts_with("E-SEQ/F5") || sp.name.starts_with("E-SEQ/F6") {
                let f = if sp.name.starts_with("E-SEQ/F4") { 4 } else if sp.name.starts_with("E-SEQ/F5") { 5 } else { 6 };
                *sp = seqspace::eseq(f, 2);
            }
        }
    }
    v
}

pub fn check_case(case: &Case) -> CheckResult {
    let mut r = CheckResult::default();
    let text = &case.files[0].1;
    let v = verdict(text);
    // every fourth case: another parser of this thread first meets a file that collects
    // diagnostics and then fails fatally
    if fnv(text) % 4 == 0 {
        let _ = run_files(&[("zz-broken".to_string(), "package z; interface Z { int ; void f() = 99999999999; }\n#".to_string())]);
    }
    let obs = match run_files(&case.files) {
        Ok(o) => o,
        Err(p) => {
            r.fail(format!("library panicked: {p}"));
            return r;
        }
    };
    let id = &case.files[0].0;
    let (pr, vr) = match (obs.parse.get(id), obs.valid.get(id)) {
        (Some(a), Some(b)) => (a, b),
        _ => {
            r.fail("no result for the file".into());
            return r;
        }
    };
    let class = if v.lexed.unlexable.is_some() {
        "unlexable"
    } else if v.well_formed {
        "well-formed"
    } else if v.rec.accepted {
        "sentence-with-overflowing-code"
    } else {
        "malformed"
    };
    r.outcomes.push(format!("model:{class}"));
    r.outcomes.push(format!(
        "impl:{}",
        match (pr.ast.is_some(), pr.diagnostics.is_empty()) {
            (true, true) => "tree,clean",
            (true, false) => "tree,errors",
            (false, false) => "no-tree,errors",
            (false, true) => "no-tree,SILENT",
        }
    ));
    r.nontrivial = Some(fnv(&format!("{:?}", v.kinds)));
    // (1) well-formed <=> tree and no syntax-stage diagnostic
    let clean = pr.ast.is_some() && pr.diagnostics.is_empty();
    if v.well_formed != clean {
        r.fail(format!(
            "verdict mismatch: grammar says {class}, library returned tree={} with {} syntax diagnostic(s) {:?}",
            pr.ast.is_some(),
            pr.diagnostics.len(),
            pr.diagnostics.iter().map(super::diag_str).collect::<Vec<_>>()
        ));
    }
    // (2) malformed => at least one Error, and validation keeps every syntax diagnostic
    if !v.well_formed && !vr.diagnostics.iter().any(is_error) {
        r.fail(format!(
            "malformed document ({class}) but no Error diagnostic after validation"
        ));
    }
    let mut remaining: Vec<&aidl_parser::diagnostic::Diagnostic> = vr.diagnostics.iter().collect();
    for d in &pr.diagnostics {
        match remaining.iter().position(|x| *x == d) {
            Some(p) => {
                remaining.swap_remove(p);
            }
            None => r.fail(format!(
                "validation dropped a syntax diagnostic: {}",
                super::diag_str(d)
            )),
        }
    }
    if pr.diagnostics.iter().any(|d| !is_error(d)) {
        r.fail("a syntax-stage diagnostic is not an Error".into());
    }
    // (3) no tree => at least one Error
    if vr.ast.is_none() && !vr.diagnostics.iter().any(is_error) {
        r.fail("result without a tree carries no Error".into());
    }
    if pr.ast.is_none() && !pr.diagnostics.iter().any(is_error) {
        r.fail("parse-stage result without a tree carries no Error".into());
    }
    // (4) no stored user identifier is a keyword or reserved word
    for res in [pr, vr] {
        if let Some(a) = &res.ast {
            for (slot, name) in tree_identifiers(a) {
                if is_forbidden_name(&name) {
                    r.fail(format!(
                        "keyword/reserved word `{name}` stored as {slot} in a returned tree"
                    ));
                }
            }
        }
    }
    if class == "well-formed" && text.len() < 120 {
        r.sample = Some(json!({"text": text, "model": class}));
    }
    r
}

pub fn run(tier: Tier, seed: u64) -> i32 {
    let stats = Stats::new(PROP, tier, seed);
    for sp in spaces(tier) {
        let before = stats.states.load(std::sync::atomic::Ordering::Relaxed);
        super::drive(
            &stats,
            sp.n,
            1,
            |i| {
                let (label, text) = (sp.gen)(i);
                Some(Case {
                    prop: PROP.into(),
                    kind: sp.name.clone(),
                    label,
                    files: vec![(if i % 16 == 15 { "@file:f" } else { "f" }.into(), text)],
                    expect: json!(null),
                })
            },
            check_case,
        );
        let after = stats.states.load(std::sync::atomic::Ordering::Relaxed);
        stats.space(json!({"space": sp.name, "cases": after - before, "what": sp.describe}));
        eprintln!("  [{}] {} cases, t={:.1}s", sp.name, after - before, stats.elapsed());
    }
    // loaded from disk: blank and comment-only files, and every lexeme variant once more
    {
        let mut texts: Vec<(String, String)> = ["", " ", "\n\n", "\t\r\n", "// only a comment", "/* c */\n", "\u{feff}", "package p;"]
            .iter()
            .enumerate()
            .map(|(k, t)| (format!("blank-{k}"), t.to_string()))
            .collect();
        let lv = seqspace::lexeme_variants();
        for i in 0..lv.n {
            texts.push((lv.gen)(i));
        }
        let before = stats.states.load(std::sync::atomic::Ordering::Relaxed);
        super::drive(
            &stats,
            texts.len(),
            1,
            |i| {
                Some(Case {
                    prop: PROP.into(),
                    kind: "ADD-FILE".into(),
                    label: format!("add_file: {}", texts[i].0),
                    files: vec![("@file:f".into(), texts[i].1.clone())],
                    expect: json!(null),
                })
            },
            check_case,
        );
        let after = stats.states.load(std::sync::atomic::Ordering::Relaxed);
        stats.space(json!({"space": "ADD-FILE", "cases": after - before, "what": "blank / comment-only files and every lexeme variant, loaded with add_file"}));
    }
    // the well-formed corpus: every document of the C02 space in its default layout
    {
        let ds = super::docspace::c02_space(tier);
        let firsts: Vec<usize> = {
            let mut v = Vec::new();
            let mut at = 0;
            for e in &ds.entries {
                if !e.layouts.is_empty() {
                    v.push(at);
                }
                at += e.layouts.len();
            }
            v
        };
        let before = stats.states.load(std::sync::atomic::Ordering::Relaxed);
        super::drive(
            &stats,
            firsts.len(),
            1,
            |i| {
                let (e, l, r) = ds.get(firsts[i]);
                Some(Case {
                    prop: PROP.into(),
                    kind: "E-DOC corpus".into(),
                    label: format!("{} / {}", e.label, l.name),
                    files: vec![(if i % 16 == 15 { "@file:f" } else { "f" }.into(), r.text)],
                    expect: json!(null),
                })
            },
            check_case,
        );
        let after = stats.states.load(std::sync::atomic::Ordering::Relaxed);
        stats.space(json!({"space": "E-DOC corpus", "cases": after - before, "what": "every document of the C02 document space, first layout"}));
    }
    stats.sample(json!({"text": "package p ; interface I { void f ( in ) ; }", "model": "malformed", "space": "E-SEQ/F7"}));
    let wf = stats.outcome_count("model:well-formed");
    let mal = stats.outcome_count("model:malformed");
    let unlex = stats.outcome_count("model:unlexable");
    finish(
        &stats,
        "every text of the listed spaces is lexed by the reference lexer and recognised by an Earley recogniser over the transcribed CFG; the real parser's parse-stage and validated results are compared with that verdict; distinct_nontrivial counts distinct token-kind sequences",
        &[
            "reference lexer / CFG transcribed from the documented grammar (DESIGN.md appendices A, B)",
            "hook H1 (parse-stage results) is a plain read accessor",
        ],
        &|c| check_case(c).to_result(),
        &[
            ("both verdicts occur", wf > 0 && mal > 0),
            ("unlexable inputs occur", unlex > 0),
        ],
    )
}

pub fn replay(case: &Case) -> Result<(), String> {
    check_case(case).to_result()
}
