//! C15 — traversal visits every node once, in order; filter and find agree with it.

use super::docspace::{DocSpace, Lay};
use super::{run_files, CheckResult};
use crate::model::doc::*;
use crate::model::gen;
use crate::model::seeds;
use crate::model::traverse::{at_level, reference_symbols, RefSym};
use crate::report::{finish, fnv, Case, Stats, Tier};
use aidl_parser::symbol::Symbol;
use aidl_parser::traverse::{self, SymbolFilter};
use serde_json::json;

pub const PROP: &str = "C15";

pub fn sym_kind(s: &Symbol) -> &'static str {
    match s {
        Symbol::Package(..) => "Package",
        Symbol::Import(..) => "Import",
        Symbol::Interface(..) => "Interface",
        Symbol::Parcelable(..) => "Parcelable",
        Symbol::Enum(..) => "Enum",
        Symbol::Method(..) => "Method",
        Symbol::Arg(..) => "Arg",
        Symbol::Const(..) => "Const",
        Symbol::Field(..) => "Field",
        Symbol::EnumElement(..) => "EnumElement",
        Symbol::Type(..) => "Type",
    }
}

pub type Triple = (String, Option<String>, usize, usize);

pub fn triple(s: &Symbol) -> Triple {
    let r = s.get_range();
    let name = s.get_name();
    if sym_kind(s) == "Arg" && name.is_none() {
        // an unnamed argument has no name as written: no statement pins its (empty) name range
        return ("Arg".to_string(), None, 0, 0);
    }
    (sym_kind(s).to_string(), name, r.start.offset, r.end.offset)
}

pub fn rtriple(s: &RefSym) -> Triple {
    if s.kind == "Arg" && s.name.is_none() {
        return ("Arg".to_string(), None, 0, 0);
    }
    (s.kind.clone(), s.name.clone(), s.start, s.end)
}

pub const LEVELS: [(SymbolFilter, u8, &str); 3] = [
    (SymbolFilter::ItemsOnly, 0, "ItemsOnly"),
    (SymbolFilter::ItemsAndItemElements, 1, "ItemsAndItemElements"),
    (SymbolFilter::All, 2, "All"),
];

const KINDS: [&str; 11] = [
    "Package", "Import", "Interface", "Parcelable", "Enum", "Method", "Arg", "Const", "Field", "EnumElement", "Type",
];

pub fn check_case(case: &Case) -> CheckResult {
    let mut r = CheckResult::default();
    let obs = match run_files(&case.files) {
        Ok(o) => o,
        Err(p) => {
            r.fail(format!("library panicked: {p}"));
            return r;
        }
    };
    let tree = match &obs.valid[&case.files[0].0].ast {
        Some(t) => t,
        None => {
            r.fail("no tree for a well-formed document".into());
            return r;
        }
    };
    let all: Vec<RefSym> = serde_json::from_value(case.expect["symbols"].clone()).unwrap_or_default();
    let mut errs: Vec<String> = Vec::new();
    for (filter, lvl, lname) in LEVELS {
        let want: Vec<Triple> = at_level(&all, lvl).iter().map(rtriple).collect();
        // walk
        let mut got: Vec<Triple> = Vec::new();
        traverse::walk_symbols(tree, filter, |s| got.push(triple(&s)));
        if got != want {
            let pos = got.iter().zip(want.iter()).position(|(a, b)| a != b).unwrap_or(got.len().min(want.len()));
            errs.push(format!(
                "walk_symbols({lname}): visited {} symbols, expected {}; first difference at index {pos}: got {:?}, expected {:?}",
                got.len(),
                want.len(),
                got.get(pos),
                want.get(pos)
            ));
            continue;
        }
        let n = want.len();
        // predicates: k-th visited (stateful), kind, name
        for k in 0..=n {
            let mut c = 0;
            let f = traverse::filter_symbols(tree, filter, |_| {
                c += 1;
                c == k + 1
            });
            let wantk: Vec<Triple> = want.get(k).cloned().into_iter().collect();
            let gotk: Vec<Triple> = f.iter().map(triple).collect();
            if gotk != wantk {
                errs.push(format!("filter_symbols({lname}, is the {}-th visited) = {gotk:?}, expected {wantk:?}", k + 1));
            }
            let mut c = 0;
            let g = traverse::find_symbol(tree, filter, |_| {
                c += 1;
                c == k + 1
            });
            if g.as_ref().map(triple) != want.get(k).cloned() {
                errs.push(format!(
                    "find_symbol({lname}, is the {}-th visited) = {:?}, expected {:?}",
                    k + 1,
                    g.as_ref().map(triple),
                    want.get(k)
                ));
            }
        }
        for kind in KINDS {
            let wantf: Vec<Triple> = want.iter().filter(|t| t.0 == kind).cloned().collect();
            let gotf: Vec<Triple> = traverse::filter_symbols(tree, filter, |s| sym_kind(s) == kind)
                .iter()
                .map(triple)
                .collect();
            if gotf != wantf {
                errs.push(format!("filter_symbols({lname}, kind {kind}) returned {} symbols, expected {}", gotf.len(), wantf.len()));
            }
            let gotfind = traverse::find_symbol(tree, filter, |s| sym_kind(s) == kind).as_ref().map(triple);
            if gotfind != wantf.first().cloned() {
                errs.push(format!("find_symbol({lname}, kind {kind}) = {gotfind:?}, expected {:?}", wantf.first()));
            }
        }
        let mut names: Vec<Option<String>> = want.iter().map(|t| t.1.clone()).collect();
        names.push(Some("no_such_name".into()));
        names.sort();
        names.dedup();
        for nm in names {
            let wantf: Vec<Triple> = want.iter().filter(|t| t.1 == nm).cloned().collect();
            let gotf: Vec<Triple> = traverse::filter_symbols(tree, filter, |s| s.get_name() == nm)
                .iter()
                .map(triple)
                .collect();
            if gotf != wantf {
                errs.push(format!("filter_symbols({lname}, name {nm:?}) = {gotf:?}, expected {wantf:?}"));
            }
            let gotfind = traverse::find_symbol(tree, filter, |s| s.get_name() == nm).as_ref().map(triple);
            if gotfind != wantf.first().cloned() {
                errs.push(format!("find_symbol({lname}, name {nm:?}) = {gotfind:?}, expected {:?}", wantf.first()));
            }
        }
    }
    // specialised walkers
    let want_types: Vec<(Option<String>, usize, usize)> = all.iter().filter(|s| s.kind == "Type").map(|s| (s.name.clone(), s.start, s.end)).collect();
    let mut got_types = Vec::new();
    traverse::walk_types(tree, |t| got_types.push((Some(t.name.clone()), t.symbol_range.start.offset, t.symbol_range.end.offset)));
    if got_types != want_types {
        errs.push(format!("walk_types yielded {} types {:?}, expected {} {:?}", got_types.len(), got_types.iter().map(|t| t.0.clone().unwrap_or_default()).collect::<Vec<_>>(), want_types.len(), want_types.iter().map(|t| t.0.clone().unwrap_or_default()).collect::<Vec<_>>()));
    }
    let want_methods: Vec<Option<String>> = all.iter().filter(|s| s.kind == "Method").map(|s| s.name.clone()).collect();
    let mut got_methods = Vec::new();
    traverse::walk_methods(tree, |m| got_methods.push(Some(m.name.clone())));
    if got_methods != want_methods {
        errs.push(format!("walk_methods yielded {got_methods:?}, expected {want_methods:?}"));
    }
    let want_args: Vec<Option<String>> = all.iter().filter(|s| s.kind == "Arg").map(|s| s.name.clone()).collect();
    let mut got_args = Vec::new();
    traverse::walk_args(tree, |_, a| got_args.push(a.name.clone()));
    if got_args != want_args {
        errs.push(format!("walk_args yielded {} arguments, expected {}", got_args.len(), want_args.len()));
    }
    r.outcomes.push(format!("symbols:{:02}", all.len().min(60) / 10 * 10));
    errs.truncate(5);
    for e in errs {
        r.fail(e);
    }
    r
}

/// documents of the traversal properties (C15, C16)
pub fn traversal_space(tier: Tier, layouts: Lay) -> DocSpace {
    let mut s = DocSpace::new();
    let q = tier == Tier::Quick;
    for (name, d) in seeds::all() {
        s.add("seed", format!("seed:{name}"), d, layouts);
    }
    let depth = if q { 4 } else { 5 };
    let mut types = gen::chain_types(if q { &gen::TYPE_LEAVES[..] } else { &gen::TYPE_LEAVES[..6] }, depth);
    if !q {
        types.extend(gen::chain_types(&gen::TYPE_LEAVES[6..], 4));
    }
    types.extend(gen::binary_maps(&gen::TYPE_LEAVES));
    let per = 6;
    for pos in 0..4 {
        s.add_all("types", gen::docs_for_types(&types, per, pos), layouts);
    }
    // composite constant types inside a parcelable
    let ctypes = gen::chain_types(&["int", "String", "Foo"], 3);
    for chunk in ctypes.chunks(per) {
        let mut item = Item::new(ItemKind::Parcelable, "P");
        for (i, t) in chunk.iter().enumerate() {
            item.members.push(Member::Const(Const::new(t.clone(), &format!("K{i}"), Value::EmptyBraces)));
            item.members.push(Member::Field(Field::new(t.clone(), &format!("f{i}"), None)));
        }
        s.add("parcelable-constants", "parcelable-constants".into(), Document::new("p.q", item), layouts);
    }
    for kind in [ItemKind::Interface, ItemKind::Parcelable, ItemKind::Enum] {
        s.add_all("members", gen::docs_for_member_sequences(kind, if q { 2 } else { 3 }), layouts);
    }
    s.add_all("arguments", gen::docs_for_argument_lists(), layouts);
    s.add_all("headers", gen::docs_for_headers().into_iter().step_by(if q { 7 } else { 1 }).collect(), layouts);
    s.add_all("names", gen::docs_for_names(), layouts);
    s.add_all("sizes", gen::docs_for_sizes(), layouts);
    s.add_all("foreign-words", gen::docs_for_foreign_words(), if layouts == Lay::Default { Lay::Default } else { Lay::DefMin });
    s.add_all("known-annotations", gen::docs_for_known_annotations().into_iter().step_by(4).collect(), Lay::Default);
    s
}

pub fn run(tier: Tier, seed: u64) -> i32 {
    let stats = Stats::new(PROP, tier, seed);
    let space = traversal_space(tier, Lay::Default);
    eprintln!("  C15 space: {} trees", space.n);
    super::drive(
        &stats,
        space.n,
        1,
        |i| {
            let (e, _l, rendered) = space.get(i);
            let syms = reference_symbols(&e.doc, &rendered);
            stats.nontrivial(fnv(&rendered.text));
            stats.outcome(&format!("family:{}", e.family));
            // predicates evaluated per tree: 3 levels x (2(n+1) + 22 + 2 names)
            stats.transitions.fetch_add((syms.len() * 8) as u64, std::sync::atomic::Ordering::Relaxed);
            if i % 997 == 0 {
                stats.sample(json!({"document": e.label, "text": rendered.text, "visit_order": syms.iter().map(|s| format!("{}:{}", s.kind, s.name.clone().unwrap_or_default())).collect::<Vec<_>>()}));
            }
            Some(Case {
                prop: PROP.into(),
                kind: e.family.into(),
                label: e.label.clone(),
                files: vec![("f".into(), rendered.text)],
                expect: json!({"symbols": syms}),
            })
        },
        check_case,
    );
    for (f, docs, cases) in space.family_counts() {
        stats.space(json!({"family": f, "documents": docs, "cases": cases}));
    }
    finish(
        &stats,
        "trees of every document of the listed families (types nested to the stated depth in 4 positions and in parcelable constants, member sequences, argument lists, headers, names, seeds) x 3 filter levels x all predicates 'is the k-th visited symbol' (k = 1..n+1, stateful), 'is of kind K' (11 kinds), 'name equals N' (every name + one absent): walk_symbols must equal the reference visit order, filter_symbols the filtered reference, find_symbol its first element; walk_types / walk_methods / walk_args the reference projections; distinct_nontrivial counts distinct source texts; transitions counts predicate evaluations",
        &["reference visit order derived from the document model (model/traverse.rs): package, imports, item, members, per member its types (pre-order, an array's element before the array) and arguments"],
        &|c| check_case(c).to_result(),
        &[("trees were explored", stats.states.load(std::sync::atomic::Ordering::Relaxed) > 100)],
    )
}

pub fn replay(case: &Case) -> Result<(), String> {
    check_case(case).to_result()
}
