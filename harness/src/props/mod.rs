//! Per-property spaces and oracles, plus helpers shared by them.

use crate::engine::guarded;
use crate::report::{Case, Stats, Tier, Violation};
use aidl_parser::diagnostic::{Diagnostic, DiagnosticKind};
use aidl_parser::{ast, ParseFileResult, Parser};
use std::collections::HashMap;

pub mod astproj;
pub mod docspace;
pub mod rangecheck;
pub mod semacommon;
pub mod seqspace;
pub mod c01;
pub mod c02;
pub mod c03;
pub mod c04;
pub mod c05;
pub mod c06;
pub mod c07;
pub mod c08;
pub mod c09;
pub mod c10;
pub mod c11;
pub mod c12;
pub mod c13;
pub mod c14;
pub mod c15;
pub mod c16;
pub mod c17;
pub mod c18;
pub mod c19;
pub mod c20;

pub type Results = HashMap<String, ParseFileResult<String>>;

pub struct Obs {
    /// parse-stage results (hook H1): tree + syntax diagnostics before validation
    pub parse: Results,
    /// results of validate()
    pub valid: Results,
    /// expectation vectors recorded by hook H2 while parsing, per file in insertion order
    pub expected: Vec<Vec<aidl_parser::verif_hooks::ExpectedRecord>>,
}

/// Run the real library on a list of (id, text) files. A panic is returned as Err.
pub fn run_files(files: &[(String, String)]) -> Result<Obs, String> {
    guarded(|| {
        let mut p: Parser<String> = Parser::new();
        let mut expected = Vec::new();
        for (id, text) in files {
            let _ = aidl_parser::verif_hooks::take_expected();
            p.add_content(id.clone(), text);
            expected.push(aidl_parser::verif_hooks::take_expected());
        }
        let parse = p.verif_parse_results().clone();
        let valid = p.validate();
        let _ = aidl_parser::verif_hooks::take_orders();
        Obs {
            parse,
            valid,
            expected,
        }
    })
}

pub fn is_error(d: &Diagnostic) -> bool {
    d.kind == DiagnosticKind::Error
}

pub fn range_str(r: &ast::Range) -> String {
    format!(
        "[{}..{} {}:{}-{}:{}]",
        r.start.offset,
        r.end.offset,
        r.start.line_col.0,
        r.start.line_col.1,
        r.end.line_col.0,
        r.end.line_col.1
    )
}

pub fn diag_str(d: &Diagnostic) -> String {
    format!(
        "{:?}{} {:?}",
        d.kind,
        range_str(&d.range),
        d.message.lines().next().unwrap_or("")
    )
}

/// Every user-chosen identifier stored in a tree.
pub fn tree_identifiers(a: &ast::Aidl) -> Vec<(String, String)> {
    let mut v: Vec<(String, String)> = Vec::new();
    for s in a.package.name.split('.') {
        v.push(("package segment".into(), s.into()));
    }
    for i in a.imports.iter().chain(a.declared_parcelables.iter()) {
        for s in i.path.split('.') {
            if !(i.path.is_empty()) {
                v.push(("import/declaration segment".into(), s.into()));
            }
        }
        v.push(("import/declaration name".into(), i.name.clone()));
    }
    fn annots(v: &mut Vec<(String, String)>, an: &[ast::Annotation]) {
        for a in an {
            for k in a.key_values.keys() {
                v.push(("annotation parameter".into(), k.clone()));
            }
        }
    }
    fn ty(v: &mut Vec<(String, String)>, t: &ast::Type) {
        // user type names are those that are not built-in type keywords
        match t.kind {
            ast::TypeKind::Primitive
            | ast::TypeKind::Void
            | ast::TypeKind::Array
            | ast::TypeKind::Map
            | ast::TypeKind::List
            | ast::TypeKind::String
            | ast::TypeKind::CharSequence => {}
            _ => {
                for s in t.name.split('.') {
                    v.push(("type name segment".into(), s.into()));
                }
            }
        }
        for g in &t.generic_types {
            ty(v, g);
        }
    }
    match &a.item {
        ast::Item::Interface(i) => {
            v.push(("item".into(), i.name.clone()));
            annots(&mut v, &i.annotations);
            for e in &i.elements {
                match e {
                    ast::InterfaceElement::Method(m) => {
                        v.push(("member".into(), m.name.clone()));
                        annots(&mut v, &m.annotations);
                        ty(&mut v, &m.return_type);
                        for arg in &m.args {
                            if let Some(n) = &arg.name {
                                v.push(("argument".into(), n.clone()));
                            }
                            annots(&mut v, &arg.annotations);
                            ty(&mut v, &arg.arg_type);
                        }
                    }
                    ast::InterfaceElement::Const(c) => {
                        v.push(("member".into(), c.name.clone()));
                        annots(&mut v, &c.annotations);
                        ty(&mut v, &c.const_type);
                    }
                }
            }
        }
        ast::Item::Parcelable(p) => {
            v.push(("item".into(), p.name.clone()));
            annots(&mut v, &p.annotations);
            for e in &p.elements {
                match e {
                    ast::ParcelableElement::Field(f) => {
                        v.push(("member".into(), f.name.clone()));
                        annots(&mut v, &f.annotations);
                        ty(&mut v, &f.field_type);
                    }
                    ast::ParcelableElement::Const(c) => {
                        v.push(("member".into(), c.name.clone()));
                        annots(&mut v, &c.annotations);
                        ty(&mut v, &c.const_type);
                    }
                }
            }
        }
        ast::Item::Enum(e) => {
            v.push(("item".into(), e.name.clone()));
            annots(&mut v, &e.annotations);
            for el in &e.elements {
                v.push(("enum element".into(), el.name.clone()));
            }
        }
    }
    v
}

/// Generic driver: run `n` cases in parallel. `make(i)` builds the case (model side),
/// `check(&case)` executes it against the library and compares (implementation side) and
/// returns Ok(outcome label) or Err((message, finding key)).
pub fn drive<M, C>(stats: &Stats, n: usize, transitions_per_case: u64, make: M, check: C)
where
    M: Fn(usize) -> Option<Case> + Sync,
    C: Fn(&Case) -> CheckResult + Sync,
{
    use rayon::prelude::*;
    (0..n).into_par_iter().for_each(|i| {
        if i % 64 == 0 && stats.past_cap() {
            return;
        }
        if stats.elapsed() > stats.wall_cap_s {
            return;
        }
        let case = match make(i) {
            Some(c) => c,
            None => return,
        };
        let r = check(&case);
        stats.case_done(transitions_per_case);
        for o in &r.outcomes {
            stats.outcome(o);
        }
        if let Some(d) = r.nontrivial {
            stats.nontrivial(d);
        }
        if let Some(s) = r.sample {
            if stats.want_sample() {
                stats.sample(s);
            }
        }
        for (message, finding_key) in r.failures {
            stats.violation(Violation {
                case: case.clone(),
                message,
                finding_key,
            });
        }
    });
}

#[derive(Default)]
pub struct CheckResult {
    pub outcomes: Vec<String>,
    pub nontrivial: Option<u64>,
    pub sample: Option<serde_json::Value>,
    /// (message, known-finding key)
    pub failures: Vec<(String, Option<String>)>,
}

impl CheckResult {
    pub fn fail(&mut self, msg: String) {
        self.failures.push((msg, None));
    }
    pub fn fail_known(&mut self, msg: String, key: &str) {
        self.failures.push((msg, Some(key.to_string())));
    }
    pub fn to_result(&self) -> Result<(), String> {
        if self.failures.is_empty() {
            Ok(())
        } else {
            Err(self
                .failures
                .iter()
                .map(|f| f.0.clone())
                .collect::<Vec<_>>()
                .join(" | "))
        }
    }
}

pub fn tier_from_args(args: &[String]) -> Tier {
    match args.get(0).map(|s| s.as_str()) {
        Some("thorough") => Tier::Thorough,
        _ => Tier::Quick,
    }
}
