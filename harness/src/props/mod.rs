//! Per-property spaces and oracles, plus helpers shared by them.

use crate::engine::guarded;
use crate::report::{Case, Stats, Tier, Violation};
use aidl_parser::diagnostic::{Diagnostic, DiagnosticKind};
use aidl_parser::{ast, ParseFileResult, Parser};
use std::collections::HashMap;

pub mod astproj;
pub mod docspace;
pub mod rangecheck;
pub mod semacommon;
pub mod seqspace;
pub mod c01;
pub mod c02;
pub mod c03;
pub mod c04;
pub mod c05;
pub mod c06;
pub mod c07;
pub mod c08;
pub mod c09;
pub mod c10;
pub mod c11;
pub mod c12;
pub mod c13;
pub mod c14;
pub mod c15;
pub mod c16;
pub mod c17;
pub mod c18;
pub mod c19;
pub mod c20;

pub type Results = HashMap<String, ParseFileResult<String>>;

pub struct Obs {
    /// parse-stage results (hook H1): tree + syntax diagnostics before validation
    pub parse: Results,
    /// results of validate()
    pub valid: Results,
    /// expectation vectors recorded by hook H2 while parsing, per file in insertion order
    pub expected: Vec<Vec<aidl_parser::verif_hooks::ExpectedRecord>>,
}

/// Run the real library on a list of (id, text) files. A panic is returned as Err.
/// Loader dimension: when an id starts with `@file:` the text is written to a run-private
/// temporary file and loaded with `Parser<PathBuf>::add_file` (the results come back under the
/// given ids) - loading a file must be equivalent to adding its text.
pub fn run_files(files: &[(String, String)]) -> Result<Obs, String> {
    if files.iter().any(|f| f.0.starts_with("@file:")) {
        return run_files_from_disk(files);
    }
    guarded(|| {
        let mut p: Parser<String> = Parser::new();
        let mut expected = Vec::new();
        for (id, text) in files {
            let _ = aidl_parser::verif_hooks::take_expected();
            p.add_content(id.clone(), text);
            expected.push(aidl_parser::verif_hooks::take_expected());
        }
        let parse = p.verif_parse_results().clone();
        let valid = p.validate();
        let _ = aidl_parser::verif_hooks::take_orders();
        Obs {
            parse,
            valid,
            expected,
        }
    })
}

/// remove the run-private directory of the add_file loader (called once, at the end of a run)
pub fn remove_loader_dir() {
    let _ = std::fs::remove_dir_all(std::env::temp_dir().join(format!("verif-harness-{}", std::process::id())));
}

fn run_files_from_disk(files: &[(String, String)]) -> Result<Obs, String> {
    use std::path::PathBuf;
    static COUNTER: std::sync::atomic::AtomicU64 = std::sync::atomic::AtomicU64::new(0);
    let n = COUNTER.fetch_add(1, std::sync::atomic::Ordering::Relaxed);
    let dir = std::env::temp_dir().join(format!("verif-harness-{}", std::process::id()));
    std::fs::create_dir_all(&dir).map_err(|e| format!("MACHINERY: cannot create {dir:?}: {e}"))?;
    let paths: Vec<PathBuf> = (0..files.len()).map(|k| dir.join(format!("c{n}-f{k}.aidl"))).collect();
    let out = guarded(|| {
        let mut p: Parser<PathBuf> = Parser::new();
        let mut expected = Vec::new();
        for ((id, text), path) in files.iter().zip(paths.iter()) {
            let _ = aidl_parser::verif_hooks::take_expected();
            if id.starts_with("@file:") {
                std::fs::write(path, text).expect("write temporary file");
                // an I/O error on a readable UTF-8 file leaves the id without a result: reported by the caller
                let _ = p.add_file(path);
            } else {
                p.add_content(path.clone(), text);
            }
            expected.push(aidl_parser::verif_hooks::take_expected());
        }
        let conv = |m: &HashMap<PathBuf, ParseFileResult<PathBuf>>| -> Results {
            let mut r = Results::new();
            for (k, path) in paths.iter().enumerate() {
                if let Some(res) = m.get(path) {
                    r.insert(
                        files[k].0.clone(),
                        ParseFileResult {
                            id: if res.id == *path { files[k].0.clone() } else { format!("{:?}", res.id) },
                            ast: res.ast.clone(),
                            diagnostics: res.diagnostics.clone(),
                        },
                    );
                }
            }
            // results under paths that were never added
            for k in m.keys() {
                if !paths.contains(k) {
                    r.insert(format!("unexpected:{k:?}"), ParseFileResult { id: format!("{k:?}"), ast: None, diagnostics: Vec::new() });
                }
            }
            r
        };
        let parse = conv(p.verif_parse_results());
        let valid = conv(&p.validate());
        let _ = aidl_parser::verif_hooks::take_orders();
        Obs {
            parse,
            valid,
            expected,
        }
    });
    for p in &paths {
        let _ = std::fs::remove_file(p);
    }
    out
}

pub fn is_error(d: &Diagnostic) -> bool {
    d.kind == DiagnosticKind::Error
}

pub fn range_str(r: &ast::Range) -> String {
    format!(
        "[{}..{} {}:{}-{}:{}]",
        r.start.offset,
        r.end.offset,
        r.start.line_col.0,
        r.start.line_col.1,
        r.end.line_col.0,
        r.end.line_col.1
    )
}

pub fn diag_str(d: &Diagnostic) -> String {
    format!(
        "{:?}{} {:?}",
        d.kind,
        range_str(&d.range),
        d.message.lines().next().unwrap_or("")
    )
}

/// Every user-chosen identifier stored in a tree.
pub fn tree_identifiers(a: &ast::Aidl) -> Vec<(String, String)> {
    let mut v: Vec<(String, String)> = Vec::new();
    for s in a.package.name.split('.') {
        v.push(("package segment".into(), s.into()));
    }
    for i in a.imports.iter().chain(a.declared_parcelables.iter()) {
        for s in i.path.split('.') {
            if !(i.path.is_empty()) {
                v.push(("import/declaration segment".into(), s.into()));
            }
        }
        v.push(("import/declaration name".into(), i.name.clone()));
    }
    fn annots(v: &mut Vec<(String, String)>, an: &[ast::Annotation]) {
        for a in an {
            for k in a.key_values.keys() {
                v.push(("annotation parameter".into(), k.clone()));
            }
        }
    }
    fn ty(v: &mut Vec<(String, String)>, t: &ast::Type) {
        // user type names are those that are not built-in type keywords
        match t.kind {
            ast::TypeKind::Primitive
            | ast::TypeKind::Void
            | ast::TypeKind::Array
            | ast::TypeKind::Map
            | ast::TypeKind::List
            | ast::TypeKind::String
            | ast::TypeKind::CharSequence => {}
            _ => {
                for s in t.name.split('.') {
                    v.push(("type name segment".into(), s.into()));
                }
            }
        }
        for g in &t.generic_types {
            ty(v, g);
        }
    }
    match &a.item {
        ast::Item::Interface(i) => {
            v.push(("item".into(), i.name.clone()));
            annots(&mut v, &i.annotations);
            for e in &i.elements {
                match e {
                    ast::InterfaceElement::Method(m) => {
                        v.push(("member".into(), m.name.clone()));
                        annots(&mut v, &m.annotations);
                        ty(&mut v, &m.return_type);
                        for arg in &m.args {
                            if let Some(n) = &arg.name {
                                v.push(("argument".into(), n.clone()));
                            }
                            annots(&mut v, &arg.annotations);
                            ty(&mut v, &arg.arg_type);
                        }
                    }
                    ast::InterfaceElement::Const(c) => {
                        v.push(("member".into(), c.name.clone()));
                        annots(&mut v, &c.annotations);
                        ty(&mut v, &c.const_type);
                    }
                }
            }
        }
        ast::Item::Parcelable(p) => {
            v.push(("item".into(), p.name.clone()));
            annots(&mut v, &p.annotations);
            for e in &p.elements {
                match e {
                    ast::ParcelableElement::Field(f) => {
                        v.push(("member".into(), f.name.clone()));
                        annots(&mut v, &f.annotations);
                        ty(&mut v, &f.field_type);
                    }
                    ast::ParcelableElement::Const(c) => {
                        v.push(("member".into(), c.name.clone()));
                        annots(&mut v, &c.annotations);
                        ty(&mut v, &c.const_type);
                    }
                }
            }
        }
        ast::Item::Enum(e) => {
            v.push(("item".into(), e.name.clone()));
            annots(&mut v, &e.annotations);
            for el in &e.elements {
                v.push(("enum element".into(), el.name.clone()));
            }
        }
    }
    v
}

/// Generic driver: run `n` cases in parallel. `make(i)` builds the case (model side),
/// `check(&case)` executes it against the library and compares (implementation side) and
/// returns Ok(outcome label) or Err((message, finding key)).
pub fn drive<M, C>(stats: &Stats, n: usize, transitions_per_case: u64, make: M, check: C)
where
    M: Fn(usize) -> Option<Case> + Sync,
    C: Fn(&Case) -> CheckResult + Sync,
{
    use rayon::prelude::*;
    let call = stats.drive_calls.fetch_add(1, std::sync::atomic::Ordering::Relaxed);
    // representatives for the interference stage: about 96 per drive call, by index
    let stride = (n / 96).max(1);
    // Consecutive cases run in chunks, each chunk on ONE fresh thread with owned hash keys: the
    // library's thread-local / process-wide state therefore survives from a case to its
    // neighbours (similar inputs: same names, same offsets), and when a case fails we can tell
    // deterministically whether it fails by itself or because of what ran before it.
    let chunk = (n / 64).clamp(4, 32).min(n.max(1));
    let nchunks = (n + chunk - 1) / chunk;
    (0..nchunks).into_par_iter().for_each(|c| {
        if stats.past_cap() || stats.elapsed() > stats.wall_cap_s {
            return;
        }
        let base = crate::report::fnv(&format!("chunk\u{1}{}\u{1}{}\u{1}{}", stats.prop, call, c));
        crate::engine::seeded(base, || {
            let mut prefix: Vec<Case> = Vec::new();
            for i in c * chunk..((c + 1) * chunk).min(n) {
                let case = match make(i) {
                    Some(c) => c,
                    None => continue,
                };
                if i % stride == 0 {
                    stats.rep(call, i, &case);
                }
                let mut r = check(&case);
                stats.case_done(transitions_per_case);
                for o in &r.outcomes {
                    stats.outcome(o);
                }
                if let Some(d) = r.nontrivial {
                    stats.nontrivial(d);
                }
                if let Some(s) = r.sample.take() {
                    if stats.want_sample() {
                        stats.sample(s);
                    }
                }
                if r.failures.iter().any(|f| f.1.is_none()) {
                    // by itself (fresh thread, keys a function of the case alone)?
                    let alone = crate::engine::seeded(case_seed(&case), || check(&case));
                    if alone.failures.iter().any(|f| f.1.is_none()) {
                        r = alone;
                    } else {
                        // only after its neighbours / only under this thread's hash keys
                        let mut ic = case.clone();
                        if !ic.expect.is_object() {
                            ic.expect = serde_json::json!({"__inner": ic.expect});
                        }
                        ic.expect["__after"] = serde_json::json!(prefix);
                        ic.expect["__base"] = serde_json::json!(base);
                        ic.kind = format!("interference/{}", ic.kind);
                        let first = r.failures.iter().find(|f| f.1.is_none()).map(|f| f.0.clone()).unwrap_or_default();
                        stats.violation(Violation {
                            case: ic,
                            message: format!(
                                "the verdict for this case depends on what ran before it on the same thread ({} earlier cases) or on the thread's hash keys - alone it passes: {}",
                                prefix.len(),
                                first
                            ),
                            finding_key: None,
                        });
                        r.failures.retain(|f| f.1.is_some());
                    }
                }
                for (message, finding_key) in r.failures {
                    stats.violation(Violation {
                        case: case.clone(),
                        message,
                        finding_key,
                    });
                }
                if chunk > 1 {
                    prefix.push(case);
                }
            }
        });
    });
}

/// hash-key base of a case: a function of its property, kind, label and files
pub fn case_seed(case: &Case) -> u64 {
    crate::report::fnv(&format!("{}\u{1}{}\u{1}{}\u{1}{:?}", case.prop, case.kind.trim_start_matches("interference/"), case.label, case.files))
}

/// Replay one case the way `drive` ran it (fresh thread, owned hash keys).
pub fn replay_seeded(case: &Case) -> Result<(), String> {
    match replay_fn(case.prop.as_str()) {
        Some(f) => crate::engine::seeded(case_seed(case), || f(case)),
        None => Err(format!("no replay function for {}", case.prop)),
    }
}

/// The replay function of a property (also used by the `seq` child mode).
pub fn replay_fn(prop: &str) -> Option<fn(&Case) -> Result<(), String>> {
    Some(match prop {
        "C01" => c01::replay,
        "C02" => c02::replay,
        "C03" => c03::replay,
        "C04" => c04::replay,
        "C05" => c05::replay,
        "C06" => c06::replay,
        "C07" => c07::replay,
        "C08" => c08::replay,
        "C09" => c09::replay,
        "C10" => c10::replay,
        "C11" => c11::replay,
        "C12" => c12::replay,
        "C13" => c13::replay,
        "C14" => c14::replay,
        "C15" => c15::replay,
        "C16" => c16::replay,
        "C17" => c17::replay,
        "C18" => c18::replay,
        "C19" => c19::replay,
        "C20" => c20::replay,
        _ => return None,
    })
}

#[derive(Default)]
pub struct CheckResult {
    pub outcomes: Vec<String>,
    pub nontrivial: Option<u64>,
    pub sample: Option<serde_json::Value>,
    /// (message, known-finding key)
    pub failures: Vec<(String, Option<String>)>,
}

impl CheckResult {
    pub fn fail(&mut self, msg: String) {
        self.failures.push((msg, None));
    }
    pub fn fail_known(&mut self, msg: String, key: &str) {
        self.failures.push((msg, Some(key.to_string())));
    }
    pub fn to_result(&self) -> Result<(), String> {
        if self.failures.is_empty() {
            Ok(())
        } else {
            Err(self
                .failures
                .iter()
                .map(|f| f.0.clone())
                .collect::<Vec<_>>()
                .join(" | "))
        }
    }
}

pub fn tier_from_args(args: &[String]) -> Tier {
    match args.get(0).map(|s| s.as_str()) {
        Some("thorough") => Tier::Thorough,
        _ => Tier::Quick,
    }
}
