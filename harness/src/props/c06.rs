//! C06 — imports and forward declarations get exactly the diagnostics they deserve.

use super::semacommon::*;
use super::CheckResult;
use crate::engine::{seq_at, seq_total};
use crate::model::doc::*;
use crate::model::sema::{Loc, Rec};
use crate::report::{finish, fnv, Case, Stats, Tier};
use serde_json::json;

pub const PROP: &str = "C06";

/// defined+used, defined+used only at depth 3, defined+unused, undefined+used,
/// undefined+unused, built-in used, built-in unused, near-miss of a declaration name (defined,
/// used), used via partial qualification
const IMPORTS: [&str; 11] = [
    "d.Used",
    "d.Deep",
    "d.Unused",
    "u.Ghost",
    "u.Phantom",
    "android.os.IBinder",
    "android.os.ParcelableHolder",
    "d.XQ",
    "d.e.Part",
    // ends with ".d.XQ" and sorts before "d.XQ": the type written `d.XQ` still means the exact import
    "a.d.XQ",
    // differs from the declaration `Used` / the import `d.Used` in letter case only (and is unused)
    "u.used",
];
/// Q, R: plain; a.b.Q: qualified (can never be used); Used: same simple name as import 0;
/// Q2: never referenced
const DECLS: [&str; 5] = ["Q", "R", "a.b.Q", "Used", "Q2"];

fn support(ctx: usize) -> Vec<ProjFile> {
    let mut v = Vec::new();
    let mk = |id: &str, pkg: &str, kind: ItemKind, name: &str| {
        ProjFile::from_doc(id, Document::new(pkg, Item::new(kind, name)))
    };
    if ctx == 0 {
        v.push(mk("used", "d", ItemKind::Parcelable, "Used"));
    }
    // this file has a recovered syntax error (tree + diagnostics): it still registers d.Deep
    let mut deep = mk("deep", "d", ItemKind::Parcelable, "Deep");
    deep.text = "package d; parcelable Deep { int ; int x; }".to_string();
    v.push(deep);
    v.push(mk("unused", "d", ItemKind::Enum, "Unused"));
    v.push(mk("xq", "d", ItemKind::Enum, "XQ"));
    v.push(mk("part", "d.e", ItemKind::Interface, "Part"));
    // a neighbour with imports and declarations of the same simple names (used and unused):
    // nothing a pass remembers from it may reach the observed file
    let mut nb = Item::new(ItemKind::Parcelable, "Neighbour");
    for (i, t) in ["Used", "XQ", "Q", "Ghost"].iter().enumerate() {
        nb.members.push(Member::Field(Field::new(Ty::custom(t), &format!("f{i}"), None)));
    }
    let mut nd = Document::new("nb", nb);
    for i in ["zz.Used", "zz.XQ", "zz.Deep", "zz.Unused", "zz.Q2", "zz.R"] {
        nd.imports.push(Import::new(i));
    }
    for n in ["Q", "Ghost", "Part"] {
        nd.decls.push(Decl::new(n));
    }
    v.push(ProjFile::from_doc("neighbour", nd));
    v
}

fn observed(imports: &[usize], decls: &[usize], body: usize, ctx: usize) -> Document {
    let mut item = Item::new(ItemKind::Parcelable, "Obs");
    let mut fields: Vec<Ty> = vec![
        Ty::custom("Used"),
        Ty::map(Ty::string(), Ty::list(Ty::array(Ty::custom("Deep")))),
        Ty::custom("Ghost"),
        Ty::custom("IBinder"),
        Ty::custom("d.XQ"),
        Ty::custom("e.Part"),
    ];
    if ctx == 1 {
        // in the second context nothing is written `d.XQ`: the imports d.XQ / a.d.XQ are unused
        // even where the body uses the declaration `Q` (a textual suffix of `XQ`)
        fields.remove(4);
    }
    if body >= 2 {
        // size dimension: the import d.Deep is used only 20 levels down
        let mut t = Ty::custom("Deep");
        for k in 0..20 {
            t = crate::model::gen::wrap(if k % 3 == 2 { 2 } else { 1 }, t);
        }
        fields[1] = t;
    }
    if body == 0 || body == 2 {
        // the declarations are used too
        fields.push(Ty::custom("Q"));
        fields.push(Ty::list(Ty::list(Ty::custom("R"))));
    }
    for (i, t) in fields.into_iter().enumerate() {
        item.members.push(Member::Field(Field::new(t, &format!("f{i}"), None)));
    }
    let mut d = Document::new("obs", item);
    d.imports = imports.iter().map(|i| Import::new(IMPORTS[*i])).collect();
    d.decls = decls.iter().map(|i| Decl::new(DECLS[*i])).collect();
    if body >= 2 {
        // size dimension: 24 more imports (unresolvable, each once) and 12 more declarations
        for k in 0..24 {
            d.imports.insert((k * 7) % (d.imports.len() + 1), Import::new(&format!("pad.k{}.Pad{k}", k % 3)));
        }
        for k in 0..12 {
            d.decls.push(Decl::new(&format!("PadDecl{k}")));
        }
    }
    d
}

fn make_case(imports: &[usize], decls: &[usize], body: usize, ctx: usize, h: History, commented: bool) -> Case {
    let mut files = support(ctx);
    files.push(ProjFile::from_doc_styled("obs", observed(imports, decls, body, ctx), commented));
    let oi = files.len() - 1;
    let exp = expect_observed(&files, oi);
    let doc = files[oi].doc.as_ref().unwrap();
    let r = files[oi].rendered.as_ref().unwrap();
    // region: the header (everything before the item)
    let header_end = r.start(doc.item.first_tok);
    let regions = vec![Loc::within(0, header_end)];
    let recs: Vec<Rec> = exp
        .recs
        .iter()
        .filter(|x| x.anchor.hi <= header_end)
        .cloned()
        .collect();
    let mut expect = expect_json(&exp, &recs, &regions, "obs");
    if h != History::Plain {
        expect["ops"] = history_ops(&files, h);
    }
    Case {
        prop: PROP.into(),
        kind: format!("{h:?}"),
        label: format!(
            "imports={:?} declarations={:?} body={} context={} history={h:?}",
            imports.iter().map(|i| IMPORTS[*i]).collect::<Vec<_>>(),
            decls.iter().map(|i| DECLS[*i]).collect::<Vec<_>>(),
            ["uses Q and R", "uses no declaration", "uses Q and R; 24 more imports, Deep 20 levels down", "uses no declaration; 24 more imports, Deep 20 levels down"][body],
            ["all defined", "d.Used not in the project"][ctx]
        ),
        files: files.iter().map(|f| (f.id.clone(), f.text.clone())).collect(),
        expect,
    }
}

pub fn check_case(case: &Case) -> CheckResult {
    let mut r = check_region_case(case, false, false);
    if let Some(recs) = case.expect["recs"].as_array() {
        for x in recs {
            r.outcomes.push(format!("class:{}", x["class"].as_str().unwrap_or("")));
        }
        if recs.is_empty() {
            r.outcomes.push("class:none".into());
        }
    }
    r
}

pub fn run(tier: Tier, seed: u64) -> i32 {
    let stats = Stats::new(PROP, tier, seed);
    // (import list length bound, declaration list length bound)
    let parts: Vec<(usize, usize)> = match tier {
        Tier::Quick => vec![(2, 2), (3, 1)],
        Tier::Thorough => vec![(3, 3)],
    };
    let hist = [History::Plain, History::Replaced, History::Reversed, History::ExtraBroken];
    for (il, dl) in parts {
        let ni = seq_total(IMPORTS.len(), il);
        let nd = seq_total(DECLS.len(), dl);
        let n = ni * nd * 4;
        super::drive(
            &stats,
            n,
            3,
            |i| {
                // every fifth case in the "large header" variant of its body
                let body = i % 2 + if (i / 4) % 5 == 4 { 2 } else { 0 };
                let ctx = (i / 2) % 2;
                let di = (i / 4) % nd;
                let ii = i / (4 * nd);
                let imports = seq_at(ii, IMPORTS.len(), il);
                let decls = seq_at(di, DECLS.len(), dl);
                // the (3,1) part only adds the import lists of length exactly 3
                if il == 3 && dl == 1 && imports.len() < 3 && tier == Tier::Quick {
                    return None;
                }
                let h = if (ii + di) % 7 == 0 { hist[((ii + di) / 7) % 4] } else { History::Plain };
                stats.nontrivial(fnv(&format!("{imports:?}{decls:?}{body}{ctx}")));
                let c = make_case(&imports, &decls, body, ctx, h, (ii + di) % 4 == 3);
                if i % 3001 == 0 {
                    stats.sample(json!({"label": c.label, "observed_file": c.files.last().unwrap().1}));
                }
                Some(c)
            },
            check_case,
        );
        stats.space(json!({"import_lists_up_to": il, "declaration_lists_up_to": dl, "import_lists": ni, "declaration_lists": nd, "bodies": 2, "contexts": 2}));
    }
    let classes = [
        "duplicate-import", "unresolved-import", "unused-import", "declaration-conflicts-with-import",
        "repeated-declaration", "declared-parcelable-usage", "unused-declaration", "none",
    ];
    let all = classes.iter().all(|c| stats.outcome_count(&format!("class:{c}")) > 0);
    finish(
        &stats,
        "every import list (with repetition) up to the stated length over 11 imports (defined-used, used only at depth 3, defined-unused, undefined-used, undefined-unused, built-in used / unused, near-miss of a declaration name, used through partial qualification, an undefined import that has another import as dotted suffix, an import differing from a declaration in letter case only) x every forward-declaration list up to the stated length over 5 names x 2 bodies (declarations used / unused; every fifth case with 24 more imports and a type 20 levels deep) x 2 project contexts; the multiset of validation diagnostics located in the header is compared with the statement's exactly-one-of table (incl. where related information points); distinct_nontrivial counts distinct (imports, declarations, body, context) tuples",
        &[
            "reference table transcribed from the statement (model/sema.rs)",
            "diagnostics are located by their range: anywhere inside the statement they concern; related information inside the first occurrence's statement",
        ],
        &|c| check_case(c).to_result(),
        &[("every diagnostic class of the statement occurs", all)],
    )
}

pub fn replay(case: &Case) -> Result<(), String> {
    check_case(case).to_result()
}
