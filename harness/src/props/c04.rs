//! C04 — every reported source range is exact, well-formed and properly nested.

use super::astproj::{all_ranges, check_range, proj_ast};
use super::docspace::c02_space;
use super::rangecheck::check_tree_ranges;
use super::{run_files, CheckResult};
use crate::model::proj::proj_doc;
use crate::model::ranges::{expected_ranges, ExpRange};
use crate::model::verdict::verdict;
use crate::report::{finish, fnv, Case, Stats, Tier};
use serde_json::json;
use std::collections::HashMap;

pub const PROP: &str = "C04";

/// Exact expectations on a well-formed document (expect = {"proj":..., "ranges":[...]}) and,
/// for every input, well-formedness / nesting of every range and the token-span rule for
/// diagnostics.
pub fn check_case(case: &Case) -> CheckResult {
    let mut r = CheckResult::default();
    let text = &case.files[0].1;
    let obs = match run_files(&case.files) {
        Ok(o) => o,
        Err(p) => {
            r.fail(format!("library panicked: {p}"));
            return r;
        }
    };
    let id = &case.files[0].0;
    let (pr, vr) = (&obs.parse[id], &obs.valid[id]);
    let mut errs: Vec<String> = Vec::new();
    // (i)+(iv) every range of every returned tree: well-formed, nested, ordered
    for (stage, res) in [("parse", pr), ("validated", vr)] {
        if let Some(a) = &res.ast {
            let mut e = Vec::new();
            check_tree_ranges(text, a, &mut e);
            for m in e {
                errs.push(format!("[{stage} tree] {m}"));
            }
        }
    }
    // (v) diagnostics
    let v = verdict(text);
    let tok_spans: Vec<(usize, usize)> = v.lexed.toks.iter().map(|t| (t.start, t.end)).collect();
    let last_end = tok_spans.last().map(|t| t.1).unwrap_or(0);
    let mut tree_ranges: Vec<(usize, usize)> = Vec::new();
    let mut arg_type_starts: Vec<usize> = Vec::new();
    if let Some(a) = &vr.ast {
        for (_, rg) in all_ranges(a) {
            tree_ranges.push((rg.start.offset, rg.end.offset));
        }
        aidl_parser::traverse::walk_args(a, |_, arg| {
            arg_type_starts.push(arg.arg_type.symbol_range.start.offset)
        });
    }
    let n_syntax = pr.diagnostics.len();
    for (i, d) in vr.diagnostics.iter().enumerate() {
        let what = format!("diagnostic {i} ({})", super::diag_str(d));
        if !check_range(text, &d.range, &what, &mut errs) {
            continue;
        }
        for (j, ri) in d.related_infos.iter().enumerate() {
            check_range(text, &ri.range, &format!("{what} related {j}"), &mut errs);
        }
    }
    // syntax diagnostics: exactly a token of the input / empty at the unlexable offset / empty
    // right after the last token
    for (i, d) in pr.diagnostics.iter().enumerate() {
        let span = (d.range.start.offset, d.range.end.offset);
        let is_token = tok_spans.contains(&span);
        let is_unlexable = Some(span.0) == v.lexed.unlexable && span.0 == span.1;
        let is_eof = span == (last_end, last_end);
        if !(is_token || is_unlexable || is_eof) {
            errs.push(format!(
                "syntax diagnostic {i} ({}) covers {:?}, which is neither a token of the input, nor empty at the unlexable offset {:?}, nor empty right after the last token ({last_end})",
                super::diag_str(d), span, v.lexed.unlexable
            ));
        }
        if i == 0 {
            // the first syntax diagnostic sits exactly on the first token that cannot continue
            // any sentence (or at the unlexable offset / end of input if that comes first)
            let want = match v.rec.first_dead {
                Some(k) => Some(tok_spans[k]),
                None => {
                    if v.lexed.unlexable.is_some() {
                        v.lexed.unlexable.map(|u| (u, u))
                    } else if !v.rec.accepted {
                        Some((last_end, last_end))
                    } else {
                        // a sentence: only an overflowing transact code can be reported
                        v.code_overflow.first().map(|k| tok_spans[*k])
                    }
                }
            };
            if let Some(w) = want {
                // a lexer error further on pre-empts the report of a dead token (the parser
                // reads ahead while recovering): both locations satisfy the statement
                let preempted = v.lexed.unlexable.map(|u| (u, u)) == Some(span);
                if w != span && !preempted {
                    errs.push(format!(
                        "first syntax diagnostic ({}) covers {:?} but the offending token is at {:?}",
                        super::diag_str(d), span, w
                    ));
                }
            }
        }
    }
    // validation diagnostics sit on a range carried by the tree, or are empty at an argument type's start
    for d in vr.diagnostics.iter() {
        if pr.diagnostics.contains(d) {
            continue;
        }
        let span = (d.range.start.offset, d.range.end.offset);
        let ok = tree_ranges.contains(&span) || (span.0 == span.1 && arg_type_starts.contains(&span.0));
        if !ok {
            errs.push(format!(
                "validation diagnostic ({}) covers {:?}, which is not the range of any node of the tree",
                super::diag_str(d), span
            ));
        }
        for ri in &d.related_infos {
            let s = (ri.range.start.offset, ri.range.end.offset);
            if !tree_ranges.contains(&s) {
                errs.push(format!(
                    "related information of ({}) covers {:?}, which is not the range of any node of the tree",
                    super::diag_str(d), s
                ));
            }
        }
    }
    r.outcomes.push(format!("syntax-diagnostics:{}", n_syntax.min(3)));
    // exact expectations (well-formed documents from the generator)
    if !case.expect.is_null() {
        let want_proj = case.expect["proj"].as_str().unwrap_or("");
        match &pr.ast {
            Some(a) if proj_ast(a) == want_proj => {
                let exp: Vec<ExpRange> = serde_json::from_value(case.expect["ranges"].clone()).unwrap_or_default();
                let got: HashMap<String, (usize, usize)> = all_ranges(a)
                    .into_iter()
                    .map(|(k, rg)| (k, (rg.start.offset, rg.end.offset)))
                    .collect();
                for e in &exp {
                    match got.get(&e.path) {
                        None => errs.push(format!("range {} missing from the tree", e.path)),
                        Some((s, en)) => {
                            if !e.starts.contains(s) || !e.ends.contains(en) {
                                errs.push(format!(
                                    "{}: reported {:?} = {:?} but start must be one of {:?} and end one of {:?}",
                                    e.path,
                                    (s, en),
                                    text.get(*s..(*en).max(*s)).unwrap_or("?"),
                                    e.starts,
                                    e.ends
                                ));
                            }
                        }
                    }
                }
                r.outcomes.push("exact-checked".into());
            }
            _ => r.outcomes.push("exact-skipped (tree does not mirror the document: C02's business)".into()),
        }
    }
    errs.truncate(6);
    for e in errs {
        r.fail(e);
    }
    r
}

pub fn run(tier: Tier, seed: u64) -> i32 {
    let stats = Stats::new(PROP, tier, seed);
    // part 1: exact expectations on the document x layout space
    let space = c02_space(tier);
    eprintln!("  C04 exact space: {} documents, {} cases", space.entries.len(), space.n);
    super::drive(
        &stats,
        space.n,
        1,
        |i| {
            let (e, l, rendered) = space.get(i);
            stats.nontrivial(fnv(&rendered.text));
            if i % 7919 == 0 {
                stats.sample(json!({"document": e.label, "layout": l.name, "text": rendered.text}));
            }
            let ranges = expected_ranges(&e.doc, &rendered);
            Some(Case {
                prop: PROP.into(),
                kind: format!("exact/{}", e.family),
                label: format!("{} @ {}", e.label, l.name),
                files: vec![(if i % 16 == 15 { "@file:f" } else { "f" }.into(), rendered.text)],
                expect: json!({"proj": proj_doc(&e.doc, false), "ranges": ranges}),
            })
        },
        check_case,
    );
    stats.space(json!({"space": "exact: C02 document x layout space", "cases": space.n}));
    eprintln!("  exact part done t={:.1}s", stats.elapsed());
    // part 2: well-formedness on the malformed spaces of C03
    for sp in super::c03::spaces_light(tier) {
        let before = stats.states.load(std::sync::atomic::Ordering::Relaxed);
        super::drive(
            &stats,
            sp.n,
            1,
            |i| {
                let (label, text) = (sp.gen)(i);
                stats.nontrivial(fnv(&text));
                Some(Case {
                    prop: PROP.into(),
                    kind: sp.name.clone(),
                    label,
                    files: vec![(if i % 16 == 15 { "@file:f" } else { "f" }.into(), text)],
                    expect: json!(null),
                })
            },
            check_case,
        );
        let after = stats.states.load(std::sync::atomic::Ordering::Relaxed);
        stats.space(json!({"space": sp.name, "cases": after - before}));
        eprintln!("  [{}] {} cases, t={:.1}s", sp.name, after - before, stats.elapsed());
    }
    let exact = stats.outcome_count("exact-checked");
    finish(
        &stats,
        "part 1: the C02 document x layout space with exact name / full-range expectations derived from the generator's token table; part 2: every case of the C03 spaces (malformed input) with well-formedness, nesting and the token-span rule for diagnostics; distinct_nontrivial counts distinct source texts",
        &[
            "expected offsets come from the renderer's token table, never from re-parsing",
            "line/column expectation: line = 1 + number of LF before the offset, column = 1 + grapheme clusters since the line start (unicode-segmentation)",
            "full-range start may be the construct's first token or the end of its last annotation; full-range end may include the terminating ';' (both allowed by the statement)",
        ],
        &|c| check_case(c).to_result(),
        &[("exact expectations were checked", exact > 0)],
    )
}

pub fn replay(case: &Case) -> Result<(), String> {
    check_case(case).to_result()
}
