//! C11 — validation output is deterministic and ordered by position.
//! E-ORD: the hash seeds of std's RandomState are owned through an LD_PRELOAD getrandom shim;
//! (project, insertion order / history, base key of the thread, validate-call number) are
//! enumerated until the iteration orders observed at the hook sites are closed.

use super::CheckResult;
use crate::engine::guarded;
use crate::report::{finish, fnv, Case, Stats, Tier, Violation};
use aidl_parser::Parser;
use serde_json::json;
use std::collections::{BTreeMap, BTreeSet};
use std::sync::Mutex;

pub const PROP: &str = "C11";
pub const KEY_DUP: &str = "collect_item_keys-one-key-two-kinds-last-file-wins";

use crate::engine::shim;

/// Run `f` on a new thread whose hash keys derive from `base` (armed before the thread creates
/// its first RandomState).
fn on_seeded_thread<T: Send + 'static>(base: u64, f: impl FnOnce() -> T + Send + 'static) -> T {
    std::thread::Builder::new()
        .stack_size(8 << 20)
        .spawn(move || {
            if let Some(s) = shim() {
                (s.arm)(base);
            }
            f()
        })
        .expect("spawn")
        .join()
        .expect("worker thread died")
}

/// Is the interposition effective? Same base => same HashSet order; different bases => some differ.
fn shim_self_test() -> Result<(), String> {
    if shim().is_none() {
        return Err("getrandom shim not loaded (run through ./check, which sets LD_PRELOAD)".into());
    }
    let probe = |base: u64| {
        on_seeded_thread(base, || {
            let s: std::collections::HashSet<u32> = (0..12).collect();
            let order: Vec<u32> = s.iter().copied().collect();
            let calls = (shim().unwrap().calls)();
            (order, calls)
        })
    };
    let (a1, c1) = probe(1);
    let (a2, _) = probe(1);
    if a1 != a2 {
        return Err("same base key gave different hash orders: the shim does not own the seeds".into());
    }
    if c1 == 0 {
        return Err("std did not call getrandom() through the shim".into());
    }
    let distinct: BTreeSet<Vec<u32>> = (2..10).map(|b| probe(b).0).collect();
    if distinct.len() < 2 {
        return Err("different base keys never changed the hash order".into());
    }
    Ok(())
}

// ---- projects ------------------------------------------------------------------------------

struct Project {
    name: &'static str,
    files: Vec<(&'static str, &'static str)>,
    /// ids of files registering one key with different kinds (recorded finding)
    dup_ids: Vec<&'static str>,
}

fn big_file_with_ties() -> &'static str {
    // > 50 diagnostics in one file, with groups of diagnostics sharing one start position and
    // hash-ordered import warnings in between
    let mut t = String::from("package o;\n");
    for i in 0..40 {
        t.push_str(&format!("import u.U{i}; "));
        if i % 8 == 7 {
            t.push('\n');
        }
    }
    t.push_str("\noneway interface I {\n");
    for i in 0..6 {
        t.push_str(&format!("  void m{i}(out int a, inout String b, out CharSequence c);\n"));
    }
    t.push_str("}\n");
    Box::leak(t.into_boxed_str())
}

/// many import warnings (hash-ordered) + pairs of Errors sharing one start position
fn ties_file(imports: usize, methods: usize) -> &'static str {
    let mut t = String::from("package com.demo;\n");
    for i in 0..imports {
        t.push_str(&format!("import com.other.pkg{}.Unknown{};\n", i % 7, i));
    }
    t.push_str("interface Big {\n");
    for i in 0..methods {
        t.push_str(&format!("    oneway void m{i}(out int a{i}, inout long b{i});\n"));
    }
    t.push_str("}\n");
    Box::leak(t.into_boxed_str())
}

/// unused imports (hash-ordered) + methods whose argument draws a Warning and an Error at the
/// same start position (`Map x`: raw map + missing direction)
fn map_ties_file(imports: usize, methods: usize) -> &'static str {
    let mut t = String::from("package o;\n");
    for i in 0..imports {
        t.push_str(&format!("import d.X{i};\n"));
    }
    t.push_str("interface Big {\n");
    for i in 0..methods {
        t.push_str(&format!("    void m{i}(Map x{i});\n"));
    }
    t.push_str("}\n");
    Box::leak(t.into_boxed_str())
}

fn projects() -> Vec<Project> {
    let mut v = base_projects();
    v.push(Project {
        name: "ties-13-imports-8-raw-map-methods",
        files: vec![("obs", map_ties_file(13, 8))],
        dup_ids: vec![],
    });
    v.push(Project {
        name: "ties-30-imports-10-raw-map-methods",
        files: vec![("obs", map_ties_file(30, 10))],
        dup_ids: vec![],
    });
    v.push(Project {
        name: "twenty-imports-two-share-a-simple-name",
        files: vec![
            ("obs", Box::leak(format!(
                "package o;\n{}import aa.Foo; import bb.Foo; import cc.dd.Foo;\ninterface I {{ void f(in Foo x); Foo g(); List<Foo> h(); }}",
                (0..20).map(|k| format!("import pad.P{k};\n")).collect::<String>()
            ).into_boxed_str())),
            ("aa", "package aa; parcelable Foo { }"),
            ("bb", "package bb; enum Foo { A }"),
        ],
        dup_ids: vec![],
    });
    v.push(Project {
        name: "import-paths-that-repeat-the-item-name",
        files: vec![
            ("obs", "package o; import s.Status; import s.Status.Status; import s.Status.Status.Status; import a.a; import a.a.a; import a.a.a.a;\ninterface I { void f(in Status x, in a y); Status g(); List<a> h(); }"),
            ("s1", "package s; parcelable Status { }"),
            ("s2", "package s.Status; enum Status { A }"),
            ("a1", "package a; interface a { }"),
            ("a2", "package a.a; parcelable a { }"),
        ],
        dup_ids: vec![],
    });
    v.push(Project {
        name: "large-transact-codes-between-other-diagnostics",
        files: vec![
            ("obs", "package o; import u.A; import u.B;\ninterface I {\n  void f(int[] a) = 16777215;\n  oneway int g(out int[] b) = 4294967295;\n  void h(List c) = 2147483648; void i(Map d) = 16777216; void j(Unknown e) = 16777214;\n  void k(in int[] z) = 16777215;\n}"),
            ("other", "package u; interface A { void f() = 4294967295; void g() = 4294967295; void h(); }"),
        ],
        dup_ids: vec![],
    });
    // three projects over the same keys (cross-instance stage): two define x.A / x.B / x.C with
    // different kinds, one only imports them; names, docs and method names coincide too
    v.push(Project {
        name: "overlap-defines-the-keys",
        files: vec![
            ("a", "package x; /** doc one */ interface A { void f(); }"),
            ("b", "package x; parcelable B { int n; }"),
            ("c", "package x; enum C { P, Q }"),
            ("use", "package y; import x.A; import x.B; import x.C; interface Use { void f(in A a, in B b, in C c, out B[] d); List<B> g(); }"),
        ],
        dup_ids: vec![],
    });
    v.push(Project {
        name: "overlap-defines-the-keys-with-other-kinds",
        files: vec![
            ("a", "package x; /** doc two */ enum A { F }"),
            ("b", "package x; interface B { void n(); }"),
            ("c", "package x; parcelable C { int p; }"),
            ("use", "package y; import x.A; import x.B; import x.C; interface Use { void f(in A a, in B b, in C c, out B[] d); List<B> g(); }"),
        ],
        dup_ids: vec![],
    });
    v.push(Project {
        name: "overlap-only-imports-the-keys",
        files: vec![
            ("use", "package y; import x.A; import x.B; import x.C; interface Use { void f(in A a, in B b, in C c, out B[] d); List<B> g(); }"),
            ("other", "package y; parcelable Other { A a; x.B b; Use u; }"),
        ],
        dup_ids: vec![],
    });
    v.push(Project {
        name: "one-simple-name-resolved-differently-in-each-file",
        files: vec![
            ("f1", "package u1; import a.Foo; interface F1 { void f(in Foo x); Foo g(); }"),
            ("f2", "package u2; import b.Foo; interface F2 { void f(in Foo x); Foo g(); }"),
            ("f3", "package u3; interface F3 { void f(in Foo x); Foo g(); }"),
            ("f4", "package u4; parcelable Foo; interface F4 { void f(in Foo x); Foo g(); }"),
            ("f5", "package u5; import a.Foo; import b.Foo; interface F5 { void f(in Foo x); b.Foo g(); }"),
            ("a", "package a; parcelable Foo { }"),
            ("b", "package b; enum Foo { A }"),
            ("e1", "package e; enum E1 { A }"),
            ("o1", "package o; oneway interface O1 { void f(out int[] a) = 1; int g(); }"),
            ("o2", "package o; interface O2 { void f(out int[] a); void g() = 1; void f(); }"),
        ],
        dup_ids: vec![],
    });
    v.push(Project {
        name: "recovered-errors-then-a-fatal-one",
        files: vec![
            ("broken", "package p; parcelable B { int ; int x = ; }\n#"),
            ("broken2", "package p; interface C { void f() = 99999999999; void ( ; }\n$"),
            ("good", "package p; import p.B; interface A { void f(in B b); }"),
            ("good2", "package q; parcelable D { int x; }"),
        ],
        dup_ids: vec![],
    });
    v.push(Project {
        name: "forward-declaration-in-another-file",
        files: vec![
            ("a", "package a; parcelable Payload; parcelable Extra; interface A { void f(in Payload p); }"),
            ("b", "package b; interface B { void g(in Payload p, in Extra e); }"),
            ("c", "package c; parcelable C { Payload p; List<Extra> l; }"),
        ],
        dup_ids: vec![],
    });
    for (name, i, m) in [
        ("ties-40-imports-6-methods", 40usize, 6usize),
        ("ties-25-imports-6-methods", 25, 6),
        ("ties-40-imports-3-methods", 40, 3),
        ("ties-64-imports-12-methods", 64, 12),
    ] {
        v.push(Project {
            name,
            files: vec![("obs", ties_file(i, m))],
            dup_ids: vec![],
        });
    }
    v.push(Project {
        name: "big-file-with-position-ties",
        files: vec![("obs", big_file_with_ties())],
        dup_ids: vec![],
    });
    v.push(Project {
        name: "enum-file-with-header-diagnostics",
        files: vec![
            ("obs", "package o; import u.A; import u.B; import d.X; parcelable Q; parcelable R; enum E { A, = 3, B }"),
            ("x", "package d; parcelable X { }"),
        ],
        dup_ids: vec![],
    });
    v.push(Project {
        name: "parcelable-file-with-header-diagnostics",
        files: vec![
            ("obs", "package o; import u.A; import u.B; import d.X; parcelable Q; parcelable R;\nparcelable P { int a int b; Nope n; }"),
            ("x", "package d; parcelable X { }"),
        ],
        dup_ids: vec![],
    });
    v
}

fn base_projects() -> Vec<Project> {
    vec![
        Project {
            name: "imports-on-one-line",
            files: vec![
                ("obs", "package o; import u.A; import u.B; import u.C; import d.X; import d.Y; interface I { void f(); }"),
                ("x", "package d; parcelable X { }"),
                ("y", "package d; enum Y { A }"),
            ],
            dup_ids: vec![],
        },
        Project {
            name: "many-diagnostics-on-one-line",
            files: vec![
                ("obs", "package o; import u.A; import d.X; import d.X; parcelable Q; interface I { void f(X x, out int i, Nope n, List l); Nope g(); }"),
                ("x", "package d; parcelable X { }"),
            ],
            dup_ids: vec![],
        },
        Project {
            name: "forward-declarations",
            files: vec![
                ("obs", "package o; import x.Q; parcelable A; parcelable B; parcelable C; parcelable B; parcelable Q; parcelable P { A a; }"),
            ],
            dup_ids: vec![],
        },
        Project {
            name: "two-imports-match-one-name",
            files: vec![
                ("obs", "package o; import a.Foo; import b.Foo; import c.d.Foo; interface I { void f(Foo x); Foo g(); }"),
                ("a", "package a; parcelable Foo { }"),
                ("b", "package b; interface Foo { }"),
                ("c", "package c.d; enum Foo { A }"),
            ],
            dup_ids: vec![],
        },
        Project {
            name: "declaration-conflicts-with-two-imports",
            files: vec![
                ("obs", "package o; import y.Q; import x.Q; import w.v.Q; parcelable Q; parcelable P { Q q; }"),
            ],
            dup_ids: vec![],
        },
        Project {
            name: "one-key-two-kinds",
            files: vec![
                ("obs", "package o; import p.B; interface I { void f(B b); }"),
                ("b-parcelable", "package p; parcelable B { }"),
                ("b-enum", "package p; enum B { A }"),
            ],
            dup_ids: vec!["b-parcelable", "b-enum"],
        },
        Project {
            name: "file-without-tree",
            files: vec![
                ("obs", "package o; import p.B; import p.C; interface I { void f(in B b, C c); }"),
                ("broken", "package p; parcelable B {"),
                ("c", "package p; parcelable C { }"),
                ("garbage", "???"),
            ],
            dup_ids: vec![],
        },
        Project {
            name: "four-files-cross-imports",
            files: vec![
                ("i", "package a; import b.P; import c.E; import d.J; interface I { P get(in E e, J j); }"),
                ("p", "package b; import c.E; import a.I; parcelable P { E e; I i; List<E> l; }"),
                ("e", "package c; enum E { X, Y }"),
                ("j", "package d; import a.I; import b.P; interface J { void cb(in I i, out P p); }"),
            ],
            dup_ids: vec![],
        },
        Project {
            name: "recovered-syntax-error-after-validation-diagnostics",
            files: vec![
                ("obs", "package o; import q.Unused; import q.Other;\ninterface I { void ok(Nope n); void broken(;\n void late(Nope2 m); }"),
                ("u", "package q; enum Unused { A }"),
            ],
            dup_ids: vec![],
        },
        Project {
            name: "eight-imports-with-duplicates",
            files: vec![
                ("obs", "package o; import a.A; import a.B; import a.A; import a.C; import a.D; import a.B; import a.E; import a.A; interface I { A f(B b); }"),
                ("a", "package a; interface A { }"),
                ("b", "package a; enum B { X }"),
            ],
            dup_ids: vec![],
        },
        Project {
            name: "one-key-same-kind-twice",
            files: vec![
                ("obs", "package o; import p.B; interface I { void f(in B b); }"),
                ("b1", "package p; parcelable B { }"),
                ("b2", "package p; parcelable B { int x; }"),
            ],
            dup_ids: vec![],
        },
        Project {
            name: "annotation-parameters",
            files: vec![
                ("obs", "package o; @A(a=1, b=2, c=3, d=4, e=5) interface I { @B(x, y, z) void f(@C(k=\"v\", j) int a); }"),
            ],
            dup_ids: vec![],
        },
    ]
}

fn permutations(n: usize, cap: usize) -> Vec<Vec<usize>> {
    fn rec(cur: &mut Vec<usize>, used: &mut Vec<bool>, out: &mut Vec<Vec<usize>>, cap: usize) {
        if out.len() >= cap {
            return;
        }
        if cur.len() == used.len() {
            out.push(cur.clone());
            return;
        }
        for i in 0..used.len() {
            if !used[i] {
                used[i] = true;
                cur.push(i);
                rec(cur, used, out, cap);
                cur.pop();
                used[i] = false;
            }
        }
    }
    let mut out = Vec::new();
    rec(&mut Vec::new(), &mut vec![false; n], &mut out, cap);
    out
}

/// ops of one way to build the project: an insertion order, optionally with a replace history
fn build_ops(p: &[(String, String)], order: &[usize], replaced: bool) -> Vec<(String, String)> {
    let mut ops = Vec::new();
    // files that come back without a tree (by convention of the project list)
    let treeless = |i: usize| p[i].0.starts_with("broken") || p[i].0 == "garbage";
    if replaced {
        for i in order {
            ops.push((p[*i].0.clone(), "package zz; parcelable B {".to_string()));
            ops.push((p[*i].0.clone(), "package p; interface B { }".to_string()));
        }
        // a validation in between (caches filled by validate() must not survive the replacements)
        ops.push(("#validate".to_string(), String::new()));
        // the same text with the other line ending (same lines, other offsets); the ids that end
        // up without a tree keep their key-registering interim content for now
        for i in order {
            if treeless(*i) {
                continue;
            }
            let t = &p[*i].1;
            let twin = if t.contains("\r\n") { t.replace("\r\n", "\n") } else { t.replace('\n', "\r\n") };
            ops.push((p[*i].0.clone(), twin));
        }
        for i in order {
            if !treeless(*i) {
                ops.push((p[*i].0.clone(), p[*i].1.clone()));
            }
        }
        // ... and receive their tree-less content last, right after another validation: the
        // last operations of the history replace key-registering content by content without a tree
        if order.iter().any(|i| treeless(*i)) {
            ops.push(("#validate".to_string(), String::new()));
        }
        for i in order {
            if treeless(*i) {
                ops.push((p[*i].0.clone(), p[*i].1.clone()));
            }
        }
        return ops;
    }
    for i in order {
        ops.push((p[*i].0.clone(), p[*i].1.clone()));
    }
    ops
}

/// validate() output in id order; compared structurally (tree equality is order-free for the
/// annotation parameter maps)
#[derive(Clone, PartialEq)]
struct Output(Vec<(String, String, Option<aidl_parser::ast::Aidl>, Vec<aidl_parser::diagnostic::Diagnostic>)>);

#[derive(Clone)]
struct Run {
    output: Output,
    /// position order violated inside some file?
    unsorted: Option<String>,
    /// (site, keys in iteration order) per hook observation of this validate call
    orders: Vec<(String, Vec<String>)>,
}

fn canonical(res: &std::collections::HashMap<String, aidl_parser::ParseFileResult<String>>) -> (Output, Option<String>) {
    let mut ids: Vec<&String> = res.keys().collect();
    ids.sort();
    let mut out = Vec::new();
    let mut unsorted = None;
    for id in ids {
        let r = &res[id];
        let mut prev = (0usize, 0usize);
        for d in &r.diagnostics {
            let lc = d.range.start.line_col;
            if lc < prev && unsorted.is_none() {
                unsorted = Some(format!(
                    "file {id}: diagnostic at line/column {:?} listed after one at {:?}",
                    lc, prev
                ));
            }
            prev = lc;
        }
        out.push((id.clone(), r.id.clone(), r.ast.clone(), r.diagnostics.clone()));
    }
    (Output(out), unsorted)
}

/// Execute: new thread with `base`, build via ops, validate `inner + 1` times; return the last run.
fn execute(ops: Vec<(String, String)>, base: u64, inner: usize) -> Result<Vec<Run>, String> {
    on_seeded_thread(base, move || {
        guarded(|| {
            let mut p: Parser<String> = Parser::new();
            for (id, text) in &ops {
                if id == "#validate" {
                    let _ = p.validate();
                } else {
                    p.add_content(id.clone(), text);
                }
            }
            let _ = aidl_parser::verif_hooks::take_orders();
            let mut runs = Vec::new();
            for _ in 0..=inner {
                let res = p.validate();
                let orders = aidl_parser::verif_hooks::take_orders()
                    .into_iter()
                    .map(|o| (o.site.to_string(), o.keys))
                    .collect();
                let (output, unsorted) = canonical(&res);
                runs.push(Run {
                    output,
                    unsorted,
                    orders,
                });
            }
            runs
        })
    })
}

fn winner(run: &Run, dup_ids: &[String]) -> Option<String> {
    let o = run.orders.iter().find(|o| o.0 == "collect_item_keys")?;
    o.1.iter()
        .rev()
        .map(|k| k.trim_matches('"').to_string())
        .find(|k| dup_ids.contains(k))
}

fn first_diff(a: &Output, b: &Output) -> String {
    if a.0.len() != b.0.len() {
        return format!("{} vs {} files in the result", a.0.len(), b.0.len());
    }
    for (x, y) in a.0.iter().zip(b.0.iter()) {
        if x.0 != y.0 || x.1 != y.1 {
            return format!("result ids / tags differ: {} ({}) vs {} ({})", x.0, x.1, y.0, y.1);
        }
        if x.3 != y.3 {
            let f = |d: &Vec<aidl_parser::diagnostic::Diagnostic>| d.iter().map(super::diag_str).collect::<Vec<_>>();
            return format!("diagnostics of file {} differ: {:?} vs {:?}", x.0, f(&x.3), f(&y.3));
        }
        if x.2 != y.2 {
            let (da, db) = (format!("{:?}", x.2), format!("{:?}", y.2));
            let p = da.bytes().zip(db.bytes()).position(|(p, q)| p != q).unwrap_or(0);
            let lo = p.saturating_sub(80);
            return format!(
                "tree of file {} differs: ...{}... vs ...{}...",
                x.0,
                da.get(lo..(p + 80).min(da.len())).unwrap_or(""),
                db.get(lo..(p + 80).min(db.len())).unwrap_or("")
            );
        }
    }
    "outputs differ".into()
}

/// replay: run A and run B of the same project must give equal output (and each sorted)
pub fn check_case(case: &Case) -> CheckResult {
    if !case.expect["cross"].is_null() {
        return check_cross(case);
    }
    let mut r = CheckResult::default();
    let files = &case.files;
    let get = |k: &str| -> (Vec<(String, String)>, u64, usize) {
        let e = &case.expect[k];
        let order: Vec<usize> = e["order"].as_array().map(|a| a.iter().map(|x| x.as_u64().unwrap_or(0) as usize).collect()).unwrap_or_default();
        (
            build_ops(files, &order, e["replaced"].as_bool().unwrap_or(false)),
            e["base"].as_u64().unwrap_or(0),
            e["inner"].as_u64().unwrap_or(0) as usize,
        )
    };
    let dup_ids: Vec<String> = serde_json::from_value(case.expect["dup_ids"].clone()).unwrap_or_default();
    let (oa, ba, ia) = get("a");
    let (ob, bb, ib) = get("b");
    let ra = execute(oa, ba, ia);
    let rb = execute(ob, bb, ib);
    match (ra, rb) {
        (Ok(a), Ok(b)) => {
            let (a, b) = (a.last().unwrap(), b.last().unwrap());
            for x in [a, b] {
                if let Some(u) = &x.unsorted {
                    r.fail(format!("diagnostics not in ascending order of position: {u}"));
                }
            }
            if a.output != b.output {
                let msg = format!(
                    "validate() output differs between two runs of the same project ({} vs {}): {}",
                    case.expect["a"], case.expect["b"], first_diff(&a.output, &b.output)
                );
                // (the one-key-two-kinds defect was repaired by 74eb68d: nothing is excused any more)
                let _ = &dup_ids;
                r.fail(msg);
            }
        }
        (Err(e), _) | (_, Err(e)) => r.fail(format!("library panicked: {e}")),
    }
    r
}

/// order-free canonical JSON of a validate() result (serde_json maps are sorted)
fn canonical_json(out: &Output) -> String {
    let v: Vec<serde_json::Value> = out
        .0
        .iter()
        .map(|(id, tag, ast, diags)| json!({"id": id, "tag": tag, "ast": serde_json::to_value(ast).unwrap_or(json!(null)), "diagnostics": serde_json::to_value(diags).unwrap_or(json!(null))}))
        .collect();
    serde_json::Value::Array(v).to_string()
}

/// child-process mode: print one digest line per project (insertion order and base key from argv)
pub fn run_proc(base: u64, reverse: bool) -> i32 {
    for proj in projects() {
        let files: Vec<(String, String)> = proj.files.iter().map(|(a, b)| (a.to_string(), b.to_string())).collect();
        let mut order: Vec<usize> = (0..files.len()).collect();
        if reverse {
            order.reverse();
        }
        match execute(build_ops(&files, &order, false), base, 2) {
            Ok(runs) => println!("{}\t{:016x}", proj.name, fnv(&canonical_json(&runs.last().unwrap().output))),
            Err(e) => println!("{}\tPANIC {e}", proj.name),
        }
    }
    0
}

/// child-process mode of the cross-instance stage: validate the `before` projects (each in its own
/// Parser, kept alive or dropped), then the target project in a fresh Parser; print its digest
pub fn run_cross(args: &[String]) -> i32 {
    let keep = args.first().map(|s| s == "1").unwrap_or(false);
    let idx: Vec<usize> = args.iter().skip(1).filter_map(|s| s.parse().ok()).collect();
    let projs = projects();
    let mut alive = Vec::new();
    let Some((target, before)) = idx.split_first() else { return 2 };
    let load = |pi: usize| -> aidl_parser::Parser<String> {
        let mut p = aidl_parser::Parser::new();
        for (id, text) in &projs[pi].files {
            p.add_content(id.to_string(), text);
        }
        p
    };
    for b in before {
        let p = load(*b);
        let _ = p.validate();
        let _ = p.validate();
        if keep {
            alive.push(p);
        }
    }
    let out = guarded(|| {
        let p = load(*target);
        let res = p.validate();
        let (output, unsorted) = canonical(&res);
        (fnv(&canonical_json(&output)), unsorted)
    });
    match out {
        Ok((d, None)) => println!("{d:016x}"),
        Ok((d, Some(u))) => println!("{d:016x} UNSORTED {u}"),
        Err(e) => println!("PANIC {e}"),
    }
    drop(alive);
    0
}

/// digest of `target` validated in a fresh child process after `before` (cross-instance stage)
fn cross_digest(keep: bool, target: usize, before: &[usize]) -> Result<String, String> {
    let exe = std::env::current_exe().map_err(|e| e.to_string())?;
    let mut cmd = std::process::Command::new(exe);
    cmd.arg("C11-cross").arg(if keep { "1" } else { "0" }).arg(target.to_string());
    for b in before {
        cmd.arg(b.to_string());
    }
    let out = cmd.output().map_err(|e| format!("cannot start child process: {e}"))?;
    Ok(String::from_utf8_lossy(&out.stdout).trim().to_string())
}

fn check_cross(case: &Case) -> CheckResult {
    let mut r = CheckResult::default();
    let c = &case.expect["cross"];
    let keep = c["keep"].as_bool().unwrap_or(false);
    let target = c["target"].as_u64().unwrap_or(0) as usize;
    let before: Vec<usize> = c["before"].as_array().map(|a| a.iter().map(|x| x.as_u64().unwrap_or(0) as usize).collect()).unwrap_or_default();
    match (cross_digest(false, target, &[]), cross_digest(keep, target, &before)) {
        (Ok(alone), Ok(after)) => {
            if alone != after {
                r.fail(format!(
                    "a fresh parser gives another result for this project after other parsers were used in the same process (digest alone {alone}, after the others {after})"
                ));
            }
        }
        (Err(e), _) | (_, Err(e)) => r.fail(format!("MACHINERY: {e}")),
    }
    r
}

fn factorial(n: usize) -> usize {
    (1..=n).product()
}

pub fn run(tier: Tier, seed: u64) -> i32 {
    if let Err(e) = shim_self_test() {
        eprintln!("MACHINERY: {e}");
        return 2;
    }
    let stats = Stats::new(PROP, tier, seed);
    let (max_orders, outer, inner) = tier.pick((6, 96, 48), (24, 160, 128));
    let projs = projects();
    let projs = if tier == Tier::Quick { projs } else { projs };
    let coverage_rows: Mutex<Vec<serde_json::Value>> = Mutex::new(Vec::new());
    let all_closed = Mutex::new(true);
    use rayon::prelude::*;
    projs.par_iter().enumerate().for_each(|(pi, proj)| {
        let files: Vec<(String, String)> = proj.files.iter().map(|(a, b)| (a.to_string(), b.to_string())).collect();
        let dup_ids: Vec<String> = proj.dup_ids.iter().map(|s| s.to_string()).collect();
        let orders = permutations(files.len(), max_orders);
        // reference output per group (group = winner id for the one-key-two-kinds project, else "")
        let mut reference: BTreeMap<String, (Output, serde_json::Value)> = BTreeMap::new();
        // (site, sorted keys) -> set of observed orders
        let mut cover: BTreeMap<(String, Vec<String>), BTreeSet<Vec<String>>> = BTreeMap::new();
        let mut tuples: BTreeSet<u64> = BTreeSet::new();
        let mut outputs: Vec<Output> = Vec::new();
        let mut closed = false;
        let mut executed = 0u64;
        'sweep: for round in 0..outer {
            for (oi, order) in orders.iter().enumerate() {
                for replaced in [false, true] {
                    if replaced && (oi + round) % 4 != 0 {
                        continue;
                    }
                    let base = seed
                        .wrapping_mul(0x9e3779b97f4a7c15)
                        .wrapping_add(((pi as u64) << 40) | ((round as u64) << 20) | ((oi as u64) << 1) | replaced as u64);
                    let ops = build_ops(&files, order, replaced);
                    let runs = match execute(ops, base, inner) {
                        Ok(r) => r,
                        Err(e) => {
                            stats.violation(Violation {
                                case: Case { prop: PROP.into(), kind: proj.name.into(), label: proj.name.into(), files: files.clone(), expect: json!({"a": {"order": order, "replaced": replaced, "base": base, "inner": 0}, "b": {"order": order, "replaced": replaced, "base": base, "inner": 0}, "dup_ids": dup_ids}) },
                                message: format!("library panicked: {e}"),
                                finding_key: None,
                            });
                            continue;
                        }
                    };
                    for (ii, run) in runs.iter().enumerate() {
                        executed += 1;
                        stats.case_done(1);
                        let here = json!({"order": order, "replaced": replaced, "base": base, "inner": ii});
                        if !outputs.contains(&run.output) {
                            outputs.push(run.output.clone());
                        }
                        tuples.insert(fnv(&format!("{:?}", run.orders)));
                        for (site, keys) in &run.orders {
                            let mut sorted = keys.clone();
                            sorted.sort();
                            cover.entry((site.clone(), sorted)).or_default().insert(keys.clone());
                        }
                        let group = String::new(); // one reference per project: every difference is a violation
                        let mk = |a: &serde_json::Value, b: &serde_json::Value| Case {
                            prop: PROP.into(),
                            kind: proj.name.into(),
                            label: format!("project {}", proj.name),
                            files: files.clone(),
                            expect: json!({"a": a, "b": b, "dup_ids": dup_ids}),
                        };
                        if let Some(u) = &run.unsorted {
                            stats.violation(Violation {
                                case: mk(&here, &here),
                                message: format!("diagnostics not in ascending order of position: {u}"),
                                finding_key: None,
                            });
                        }
                        match reference.get(&group) {
                            None => {
                                // a second group of the one-key-two-kinds project: the recorded finding
                                if let Some((_, (out0, at0))) = reference.iter().next() {
                                    if *out0 != run.output {
                                        stats.violation(Violation {
                                            case: mk(at0, &here),
                                            message: format!("validate() output depends on which of the files registering one key comes last in the file map: {}", first_diff(out0, &run.output)),
                                            finding_key: None,
                                        });
                                    }
                                }
                                reference.insert(group, (run.output.clone(), here));
                            }
                            Some((out0, at0)) => {
                                if *out0 != run.output {
                                    stats.violation(Violation {
                                        case: mk(at0, &here),
                                        message: format!("validate() output differs between two runs of the same project: {}", first_diff(out0, &run.output)),
                                        finding_key: None,
                                    });
                                }
                            }
                        }
                    }
                }
            }
            // closure: every container of 2..=4 elements seen in all its permutations
            closed = cover
                .iter()
                .all(|((_, keys), seen)| keys.len() < 2 || keys.len() > 4 || seen.len() >= factorial(keys.len()));
            // quick stops once closed; thorough keeps enumerating seeds (joint order tuples)
            if closed && round >= 1 && tier == Tier::Quick {
                break 'sweep;
            }
        }
        if !closed {
            *all_closed.lock().unwrap() = false;
        }
        stats.nontrivial(fnv(proj.name));
        for t in &tuples {
            stats.nontrivial(*t);
        }
        let sites: Vec<serde_json::Value> = cover
            .iter()
            .map(|((site, keys), seen)| json!({"site": site, "elements": keys.len(), "orders_observed": seen.len(), "orders_possible": if keys.len() <= 8 { factorial(keys.len()) } else { 0 }}))
            .collect();
        coverage_rows.lock().unwrap().push(json!({
            "project": proj.name,
            "files": files.len(),
            "insertion_orders": orders.len(),
            "validate_calls": executed,
            "distinct_order_tuples": tuples.len(),
            "distinct_outputs": outputs.len(),
            "closed_for_containers_up_to_4": closed,
            "sites": sites,
        }));
    });
    // other processes: the same projects validated in child processes (own address space, own
    // seeds) must give the same canonical output as in this process
    {
        let exe = std::env::current_exe().expect("exe");
        let mut mine: BTreeMap<String, String> = BTreeMap::new();
        for proj in projs.iter() {
            let files: Vec<(String, String)> = proj.files.iter().map(|(a, b)| (a.to_string(), b.to_string())).collect();
            let order: Vec<usize> = (0..files.len()).collect();
            if let Ok(runs) = execute(build_ops(&files, &order, false), 7, 0) {
                mine.insert(proj.name.to_string(), format!("{:016x}", fnv(&canonical_json(&runs[0].output))));
            }
        }
        let nproc = tier.pick(4, 16);
        let mut compared = 0;
        for k in 0..nproc {
            let out = std::process::Command::new(&exe)
                .arg("C11-proc")
                .arg(format!("{}", 1000 + k))
                .arg(if k % 2 == 0 { "fwd" } else { "rev" })
                .output();
            let out = match out {
                Ok(o) => String::from_utf8_lossy(&o.stdout).to_string(),
                Err(e) => {
                    eprintln!("MACHINERY: cannot start child process: {e}");
                    return 2;
                }
            };
            for line in out.lines() {
                if let Some((name, digest)) = line.split_once('\t') {
                    compared += 1;
                    stats.case_done(1);
                    if mine.get(name).map(|d| d.as_str()) != Some(digest) {
                        let proj = projs.iter().find(|p| p.name == name);
                        let files: Vec<(String, String)> = proj.map(|p| p.files.iter().map(|(a, b)| (a.to_string(), b.to_string())).collect()).unwrap_or_default();
                        let n = files.len();
                        let ord: Vec<usize> = if k % 2 == 0 { (0..n).collect() } else { (0..n).rev().collect() };
                        stats.violation(Violation {
                            case: Case {
                                prop: PROP.into(),
                                kind: name.into(),
                                label: format!("project {name} in child process {k}"),
                                files,
                                expect: json!({"a": {"order": (0..n).collect::<Vec<_>>(), "replaced": false, "base": 7, "inner": 0}, "b": {"order": ord, "replaced": false, "base": 1000 + k, "inner": 2}, "dup_ids": []}),
                            },
                            message: format!("validate() output in another process differs ({digest} vs {:?})", mine.get(name)),
                            finding_key: None,
                        });
                    }
                }
            }
        }
        stats.set("other_process_comparisons", json!(compared));
    }
    // cross-instance stage (process-global and thread-local state): in a fresh child process,
    // other projects are validated first (their parsers dropped / kept alive), then the target in
    // a fresh Parser; its result must equal the result of the target alone in a fresh process
    {
        let np = projs.len();
        let alone: Vec<Result<String, String>> = (0..np).into_par_iter().map(|t| cross_digest(false, t, &[])).collect();
        let mut jobs: Vec<(bool, usize, Vec<usize>)> = Vec::new();
        for t in 0..np {
            for b in 0..np {
                jobs.push((false, t, vec![b]));
                jobs.push((true, t, vec![b]));
            }
            // everything else first, in list order and reversed
            let others: Vec<usize> = (0..np).filter(|x| *x != t).collect();
            jobs.push((true, t, others.clone()));
            jobs.push((false, t, others.into_iter().rev().collect()));
        }
        if tier == Tier::Thorough {
            let core: Vec<usize> = (0..np).step_by(3).collect();
            for t in &core {
                for a in &core {
                    for b in &core {
                        jobs.push((true, *t, vec![*a, *b]));
                    }
                }
            }
        }
        let results: Vec<(usize, Result<String, String>)> = jobs
            .par_iter()
            .enumerate()
            .map(|(k, (keep, t, before))| (k, cross_digest(*keep, *t, before)))
            .collect();
        for (k, res) in results {
            let (keep, t, before) = &jobs[k];
            stats.case_done(1);
            let ok = match (&alone[*t], &res) {
                (Ok(a), Ok(b)) => a == b && !a.contains("PANIC") && !a.contains("UNSORTED"),
                _ => false,
            };
            if !ok {
                stats.violation(Violation {
                    case: Case {
                        prop: PROP.into(),
                        kind: "cross-instance".into(),
                        label: format!("project {} after {:?} (parsers {})", projs[*t].name, before.iter().map(|b| projs[*b].name).collect::<Vec<_>>(), if *keep { "kept alive" } else { "dropped" }),
                        files: projs[*t].files.iter().map(|(a, b)| (a.to_string(), b.to_string())).collect(),
                        expect: json!({"cross": {"keep": keep, "target": t, "before": before}}),
                    },
                    message: format!("a fresh parser gives another result after other parsers were used in the same process: {:?} vs alone {:?}", res, alone[*t]),
                    finding_key: None,
                });
            }
        }
        stats.space(json!({"space": "cross-instance: target project in a fresh process after other projects", "projects": np, "child_processes": jobs.len() + np}));
    }
    for row in coverage_rows.lock().unwrap().iter() {
        stats.space(row.clone());
    }
    if !*all_closed.lock().unwrap() {
        stats.cap("seed sweep ended before every hash container of <= 4 elements had been seen in all its iteration orders".into());
    }
    stats.sample(json!({"project": "imports-on-one-line", "file": base_projects()[0].files[0].1}));
    stats.sample(json!({"project": "one-key-two-kinds", "files": base_projects()[5].files}));
    let multi = stats.states.load(std::sync::atomic::Ordering::Relaxed) > 1000;
    finish(
        &stats,
        "30 projects built to collide (several diagnostics on one line, several unresolved / unused imports and forward declarations, two imports matching one name, a declaration conflicting with several imports, one key registered twice, files without a tree, recovered syntax errors after validation diagnostics) x insertion orders (all permutations up to the stated cap) x plain / replace histories x base keys of new threads x repeated validate() calls; hash seeds are owned through the getrandom shim and the sweep continues until every hash container of <= 4 elements has been observed (hook H3) in all its iteration orders at every site; all outputs of one project must be equal and every file's diagnostics ascending in (line, column); states = validate() calls compared; distinct_nontrivial = distinct iteration-order tuples observed",
        &[
            "std's RandomState takes its keys from getrandom(2) once per thread and increments them per instance; the LD_PRELOAD shim makes them a function of the harness-chosen base key (self-tested at start-up)",
            "hook H3 only observes the order of the container the library is about to iterate",
            "thread schedules are not explored: the library has no synchronisation operations (DESIGN.md section 8)",
        ],
        &|c| check_case(c).to_result(),
        &[("validate() was exercised under many seeds", multi)],
    )
}

pub fn replay(case: &Case) -> Result<(), String> {
    check_case(case).to_result()
}
