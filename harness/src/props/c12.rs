//! C12 — results depend only on the surviving contents, not on the edit history.
//! E-HIST: explicit-state exploration of operation histories on a live `Parser<PathBuf>`
//! (cloned at every branch, hook H4) against a fresh parser loaded with the abstract map.

use super::CheckResult;
use crate::engine::guarded;
use crate::report::{finish, fnv, Case, Stats, Tier, Violation};
use aidl_parser::{ParseFileResult, Parser};
use rayon::prelude::*;
use serde_json::json;
use std::collections::{BTreeMap, HashMap};
use std::path::PathBuf;
use std::sync::Mutex;

pub const PROP: &str = "C12";

pub const CONTENTS: [&str; 9] = [
    "package p;\nimport p.B;\ninterface A {\n  void f(B b);\n}\n",
    "package p; parcelable B { int x; }",
    "package p; enum B { X, Y }",
    // a recovered syntax error (a diagnostic is already collected) followed by a fatal one: no tree
    "package p;\nparcelable B { int ; int x; }\n#",
    // the same text as content 0 with CRLF line ends (same lines, other offsets)
    "package p;\r\nimport p.B;\r\ninterface A {\r\n  void f(B b);\r\n}\r\n",
    // starts with a byte order mark (on disk as bom.aidl): no tree
    "\u{feff}package p; parcelable B { int x; }",
    // placeholder for the long file (on disk as big.aidl); the real text is `big_text()`
    "",
    // same kind and name as content 1 in a sub-package: the new key `p.q.B` starts with the old
    // package and ends with the old name (replacing 1 by 7 must unregister `p.B`)
    "package p.q; parcelable B { int x; }",
    // a blank file (on disk as blank.aidl): no tree, one Error
    "  \n\t\n",
];
const IDS: [&str; 8] = ["a.aidl", "b.aidl", "m.aidl", "bad.aidl", "sub", "bom.aidl", "big.aidl", "blank.aidl"];

/// > 2 KiB, with two- and three-byte characters at both byte parities, so that some of them
/// straddle every 512-byte boundary
pub fn big_text() -> &'static str {
    static T: std::sync::OnceLock<String> = std::sync::OnceLock::new();
    T.get_or_init(|| {
        let mut t = String::from("package big;\n");
        t.push_str(&format!("// {}\n", "é".repeat(300)));
        t.push_str(&format!("//  {}\n", "é".repeat(300)));
        t.push_str(&format!("/* {} */\n", "日本".repeat(120)));
        t.push_str("parcelable Big { String s = \"");
        t.push_str(&"ß日".repeat(100));
        t.push_str("\"; }\n");
        t
    })
}

fn content(c: usize) -> &'static str {
    if c == 6 {
        big_text()
    } else {
        CONTENTS[c]
    }
}

#[derive(Clone, Copy, Debug, PartialEq, Eq, Hash, PartialOrd, Ord)]
pub enum Op {
    Add(usize, usize), // id, content
    AddFile(usize),    // id (a, b: readable; m: missing; bad: not UTF-8; sub: a directory)
    Remove(usize),
    Validate,
}

impl Op {
    fn text(&self) -> String {
        match self {
            Op::Add(i, c) => format!("add_content({}, c{})", IDS[*i], c),
            Op::AddFile(i) => format!("add_file({})", IDS[*i]),
            Op::Remove(i) => format!("remove_content({})", IDS[*i]),
            Op::Validate => "validate()".into(),
        }
    }
    fn to_json(&self) -> serde_json::Value {
        match self {
            Op::Add(i, c) => json!(["add", i, c]),
            Op::AddFile(i) => json!(["add_file", i]),
            Op::Remove(i) => json!(["remove", i]),
            Op::Validate => json!(["validate"]),
        }
    }
    fn from_json(v: &serde_json::Value) -> Option<Op> {
        let a = v.as_array()?;
        let n = |k: usize| a.get(k).and_then(|x| x.as_u64()).map(|x| x as usize);
        Some(match a.first()?.as_str()? {
            "add" => Op::Add(n(1)?, n(2)?),
            "add_file" => Op::AddFile(n(1)?),
            "remove" => Op::Remove(n(1)?),
            "validate" => Op::Validate,
            _ => return None,
        })
    }
}

/// content a readable file holds on disk
fn disk_content(id: usize) -> Option<usize> {
    match id {
        0 => Some(0),
        1 => Some(2),
        5 => Some(5),
        6 => Some(6),
        7 => Some(8),
        _ => None,
    }
}

pub fn alphabet_a() -> Vec<Op> {
    let mut v = Vec::new();
    for id in 0..3 {
        for c in 0..5 {
            v.push(Op::Add(id, c));
        }
    }
    v.push(Op::Add(3, 1));
    v.push(Op::Add(1, 7));
    v.push(Op::Add(2, 7));
    for id in 0..8 {
        v.push(Op::AddFile(id));
    }
    for id in [0usize, 1, 2, 3, 5, 6, 7] {
        v.push(Op::Remove(id));
    }
    v.push(Op::Validate);
    v
}

pub fn alphabet_b() -> Vec<Op> {
    let mut v = Vec::new();
    for id in [0usize, 2] {
        for c in 0..3 {
            v.push(Op::Add(id, c));
        }
    }
    v.push(Op::Remove(0));
    v.push(Op::Remove(2));
    v.push(Op::Validate);
    v.push(Op::AddFile(2));
    v.push(Op::AddFile(3));
    v
}

/// abstract state: id -> content
pub type Abs = BTreeMap<usize, usize>;

/// Nothing is pruned any more: states registering one key with two kinds (c1 and c2 together)
/// were C11's business while the kind seen by importers depended on hash order; since the repair
/// 74eb68d the live parser and the fresh parser must agree there too.
fn pruned(_a: &Abs) -> bool {
    false
}

/// model transition; returns (new state, whether add_file must report an error)
fn model_step(a: &Abs, op: Op) -> (Abs, Option<bool>) {
    let mut n = a.clone();
    match op {
        Op::Add(i, c) => {
            n.insert(i, c);
            (n, None)
        }
        Op::AddFile(i) => match disk_content(i) {
            Some(c) => {
                n.insert(i, c);
                (n, Some(false))
            }
            None => (n, Some(true)),
        },
        Op::Remove(i) => {
            n.remove(&i);
            (n, None)
        }
        Op::Validate => (n, None),
    }
}

pub struct Env {
    dir: PathBuf,
}

impl Env {
    pub fn new() -> Env {
        let dir = PathBuf::from(format!("/verif/target/c12-files-{}", std::process::id()));
        let _ = std::fs::remove_dir_all(&dir);
        std::fs::create_dir_all(dir.join("sub")).expect("create run-private directory");
        std::fs::write(dir.join("a.aidl"), CONTENTS[0]).unwrap();
        std::fs::write(dir.join("b.aidl"), CONTENTS[2]).unwrap();
        std::fs::write(dir.join("bom.aidl"), CONTENTS[5]).unwrap();
        std::fs::write(dir.join("big.aidl"), big_text()).unwrap();
        std::fs::write(dir.join("blank.aidl"), CONTENTS[8]).unwrap();
        std::fs::write(dir.join("bad.aidl"), [0x70u8, 0x61, 0xff, 0xfe, 0x80]).unwrap();
        Env { dir }
    }
    fn path(&self, id: usize) -> PathBuf {
        if id == 1 {
            // a path that is not in canonical form: the id is the path as given
            return self.dir.join("sub").join("..").join(IDS[id]);
        }
        self.dir.join(IDS[id])
    }
    /// apply an operation to the real parser; Some(is_err) for add_file
    fn apply(&self, p: &mut Parser<PathBuf>, op: Op) -> Option<bool> {
        match op {
            Op::Add(i, c) => {
                p.add_content(self.path(i), content(c));
                None
            }
            Op::AddFile(i) => Some(p.add_file(self.path(i)).is_err()),
            Op::Remove(i) => {
                p.remove_content(self.path(i));
                None
            }
            Op::Validate => {
                let _ = p.validate();
                None
            }
        }
    }
    fn fresh(&self, a: &Abs) -> Parser<PathBuf> {
        let mut p = Parser::new();
        for (i, c) in a {
            p.add_content(self.path(*i), content(*c));
        }
        p
    }
}

impl Drop for Env {
    fn drop(&mut self) {
        let _ = std::fs::remove_dir_all(&self.dir);
    }
}

/// canonical observation of a validate() result: id name -> (tree debug, position-sorted diagnostics)
fn observe(env: &Env, res: &HashMap<PathBuf, ParseFileResult<PathBuf>>) -> Vec<(String, String, String)> {
    let mut v: Vec<(String, String, String)> = res
        .iter()
        .map(|(k, r)| {
            let name = k.strip_prefix(&env.dir).map(|p| p.display().to_string()).unwrap_or(k.display().to_string());
            let tag = if &r.id == k { String::new() } else { format!("TAGGED-WITH-{:?} ", r.id) };
            let mut d: Vec<String> = r.diagnostics.iter().map(|d| format!("{:?}", d)).collect();
            let mut keyed: Vec<(usize, String)> = r.diagnostics.iter().map(|d| d.range.start.offset).zip(d.drain(..)).collect();
            keyed.sort();
            (name, format!("{tag}{:?}", r.ast), format!("{:?}", keyed))
        })
        .collect();
    v.sort();
    v
}

fn diff(a: &[(String, String, String)], b: &[(String, String, String)]) -> String {
    let ka: Vec<&String> = a.iter().map(|x| &x.0).collect();
    let kb: Vec<&String> = b.iter().map(|x| &x.0).collect();
    if ka != kb {
        return format!("ids in the result are {ka:?}, a fresh parser gives {kb:?}");
    }
    for (x, y) in a.iter().zip(b.iter()) {
        if x.1 != y.1 {
            let p = x.1.bytes().zip(y.1.bytes()).position(|(p, q)| p != q).unwrap_or(0);
            let lo = p.saturating_sub(60);
            return format!(
                "tree of {} differs from a fresh parser's: ...{}... vs ...{}...",
                x.0,
                x.1.get(lo..(p + 60).min(x.1.len())).unwrap_or(""),
                y.1.get(lo..(p + 60).min(y.1.len())).unwrap_or("")
            );
        }
        if x.2 != y.2 {
            return format!("diagnostics of {} are {} but a fresh parser gives {}", x.0, x.2, y.2);
        }
    }
    "observations differ".into()
}

struct Node {
    parser: Parser<PathBuf>,
    abs: Abs,
    hist: Vec<Op>,
}

struct Explorer<'a> {
    env: &'a Env,
    stats: &'a Stats,
    /// abstract state -> observation of a fresh parser (the reference; also makes
    /// "abstract state -> observation" a function over the whole run)
    expected: Mutex<HashMap<Abs, Vec<(String, String, String)>>>,
    pruned: std::sync::atomic::AtomicU64,
}

impl<'a> Explorer<'a> {
    fn expected_for(&self, a: &Abs) -> Vec<(String, String, String)> {
        if let Some(e) = self.expected.lock().unwrap().get(a) {
            return e.clone();
        }
        let res = self.env.fresh(a).validate();
        // intrinsic check of the reference itself, once per abstract state: every range of every
        // tree must fit the text the id holds (a fresh parser is only a valid reference if it is
        // not itself served from state shared across parsers, e.g. a cache keyed by normalised text)
        for (id, c) in a {
            if let Some(tree) = res.get(&self.env.path(*id)).and_then(|r| r.ast.as_ref()) {
                let mut errs = Vec::new();
                super::rangecheck::check_tree_ranges(content(*c), tree, &mut errs);
                if let Some(e) = errs.first() {
                    let hist: Vec<Op> = a.iter().map(|(i, c)| Op::Add(*i, *c)).collect();
                    let mut case = history_case(&hist);
                    case.expect["intrinsic"] = json!(true);
                    case.kind = "reference-ranges".into();
                    self.stats.violation(Violation {
                        case,
                        message: format!("a fresh parser holding {a:?} reports ranges for {} that do not fit its text: {e}", IDS[*id]),
                        finding_key: None,
                    });
                }
            }
        }
        let e = observe(self.env, &res);
        self.expected.lock().unwrap().insert(a.clone(), e.clone());
        e
    }

    /// one transition from `node`; returns the successor (None if pruned or failed)
    fn step(&self, node: &Node, op: Op) -> Option<Node> {
        let (abs, want_err) = model_step(&node.abs, op);
        if pruned(&abs) {
            self.pruned.fetch_add(1, std::sync::atomic::Ordering::Relaxed);
            return None;
        }
        let mut hist = node.hist.clone();
        hist.push(op);
        let mut parser = node.parser.clone();
        let r = guarded(|| {
            let got_err = self.env.apply(&mut parser, op);
            let obs = observe(self.env, &parser.validate());
            (got_err, obs)
        });
        self.stats.case_done(1);
        self.stats.outcome(match op {
            Op::Add(..) => "op:add_content",
            Op::AddFile(i) if disk_content(i).is_some() => "op:add_file(readable)",
            Op::AddFile(_) => "op:add_file(failing)",
            Op::Remove(_) => "op:remove_content",
            Op::Validate => "op:validate",
        });
        let fail = |msg: String| {
            self.stats.violation(Violation {
                case: history_case(&hist),
                message: msg,
                finding_key: None,
            });
        };
        match r {
            Err(p) => {
                fail(format!("library panicked: {p}"));
                None
            }
            Ok((got_err, obs)) => {
                if got_err != want_err {
                    fail(format!(
                        "{} returned {} but must return {}",
                        op.text(),
                        if got_err == Some(true) { "an error" } else { "Ok" },
                        if want_err == Some(true) { "an I/O error" } else { "Ok" }
                    ));
                }
                let want = self.expected_for(&abs);
                if obs != want {
                    fail(format!("after {}: {}", op.text(), diff(&obs, &want)));
                    return None;
                }
                self.stats.nontrivial(fnv(&format!("{abs:?}")));
                Some(Node { parser, abs, hist })
            }
        }
    }

    /// depth-first exploration below `node` (memory stays proportional to the depth)
    fn dfs(&self, node: &Node, alphabet: &[Op], depth_left: usize) {
        if depth_left == 0 || self.stats.violation_count() > 50 || self.stats.past_cap() {
            return;
        }
        for op in alphabet {
            if let Some(child) = self.step(node, *op) {
                self.dfs(&child, alphabet, depth_left - 1);
            }
        }
    }

    /// full history tree from `roots`, `depth` levels: the first two levels breadth-first (to get
    /// enough independent subtrees for all cores), the rest depth-first inside each subtree
    fn explore(&self, roots: Vec<Node>, alphabet: &[Op], depth: usize) {
        let mut frontier = roots;
        let bfs_levels = depth.min(2);
        for level in 0..bfs_levels {
            let last = level + 1 == depth;
            // nodes are moved into the workers (the parser only needs to be Send, not Sync)
            let next: Vec<Node> = frontier
                .into_par_iter()
                .flat_map_iter(|n| {
                    alphabet
                        .iter()
                        .filter_map(|op| self.step(&n, *op))
                        .filter(|_| !last)
                        .collect::<Vec<Node>>()
                        .into_iter()
                })
                .collect();
            frontier = next;
            if self.stats.violation_count() > 50 {
                return;
            }
        }
        if depth > bfs_levels {
            frontier.into_par_iter().for_each(|n| self.dfs(&n, alphabet, depth - bfs_levels));
        }
    }
}

fn history_case(hist: &[Op]) -> Case {
    Case {
        prop: PROP.into(),
        kind: format!("history-len{}", hist.len()),
        label: hist.iter().map(|o| o.text()).collect::<Vec<_>>().join("; "),
        files: (0..CONTENTS.len()).map(|i| (format!("c{i}"), content(i).to_string())).collect(),
        expect: json!({"history": hist.iter().map(|o| o.to_json()).collect::<Vec<_>>()}),
    }
}

/// Replay one history from scratch on a fresh parser (no clones), comparing after every step.
pub fn check_case(case: &Case) -> CheckResult {
    let mut r = CheckResult::default();
    let env = Env::new();
    let hist: Vec<Op> = case.expect["history"]
        .as_array()
        .map(|a| a.iter().filter_map(Op::from_json).collect())
        .unwrap_or_default();
    let intrinsic = case.expect["intrinsic"].as_bool().unwrap_or(false);
    if intrinsic {
        // as in the run that found it, other parsers of the process have seen every content
        let mut warm: Parser<PathBuf> = Parser::new();
        for c in 0..CONTENTS.len() {
            warm.add_content(env.dir.join(format!("warm{c}.aidl")), content(c));
        }
        let _ = warm.validate();
    }
    let mut p: Parser<PathBuf> = Parser::new();
    let mut abs = Abs::new();
    for op in hist {
        let (nabs, want_err) = model_step(&abs, op);
        abs = nabs;
        let res = guarded(|| {
            let e = env.apply(&mut p, op);
            (e, observe(&env, &p.validate()))
        });
        match res {
            Err(pn) => {
                r.fail(format!("library panicked at {}: {pn}", op.text()));
                return r;
            }
            Ok((got_err, obs)) => {
                if got_err != want_err {
                    r.fail(format!("{} returned {:?}, expected error={:?}", op.text(), got_err, want_err));
                }
                if pruned(&abs) {
                    continue;
                }
                let fresh = env.fresh(&abs).validate();
                let want = observe(&env, &fresh);
                if obs != want {
                    r.fail(format!("after {}: {}", op.text(), diff(&obs, &want)));
                    return r;
                }
                if intrinsic {
                    for (id, c) in &abs {
                        if let Some(tree) = fresh.get(&env.path(*id)).and_then(|x| x.ast.as_ref()) {
                            let mut errs = Vec::new();
                            super::rangecheck::check_tree_ranges(content(*c), tree, &mut errs);
                            if let Some(e) = errs.first() {
                                r.fail(format!("a fresh parser holding {abs:?} reports ranges for {} that do not fit its text: {e}", IDS[*id]));
                                return r;
                            }
                        }
                    }
                }
            }
        }
    }
    r
}

pub fn run(tier: Tier, seed: u64) -> i32 {
    let stats = Stats::new(PROP, tier, seed);
    let env = Env::new();
    let ex = Explorer {
        env: &env,
        stats: &stats,
        expected: Mutex::new(HashMap::new()),
        pruned: std::sync::atomic::AtomicU64::new(0),
    };
    let a = alphabet_a();
    let b = alphabet_b();
    let root = || Node {
        parser: Parser::new(),
        abs: Abs::new(),
        hist: vec![],
    };
    // (i) full history trees from the empty parser
    let (da, db) = tier.pick((3, 4), (4, 6));
    ex.explore(vec![root()], &a, da);
    stats.space(json!({"space": "history tree from the empty parser, alphabet A", "operations": a.len(), "depth": da, "nodes_so_far": stats.states.load(std::sync::atomic::Ordering::Relaxed)}));
    eprintln!("  tree A depth {da}: t={:.1}s", stats.elapsed());
    ex.explore(vec![root()], &b, db);
    stats.space(json!({"space": "history tree from the empty parser, alphabet B", "operations": b.len(), "depth": db, "nodes_so_far": stats.states.load(std::sync::atomic::Ordering::Relaxed)}));
    eprintln!("  tree B depth {db}: t={:.1}s", stats.elapsed());
    // (ii) from every reachable abstract state (canonical add-only history), all suffixes
    let mut states: Vec<Abs> = Vec::new();
    for ca in 0..6usize {
        for cb in 0..6usize {
            for cm in 0..6usize {
                for cbad in 0..2usize {
                    for cbom in 0..2usize {
                        let mut s = Abs::new();
                        for (id, c) in [(0usize, ca), (1, cb), (2, cm)] {
                            if c > 0 {
                                s.insert(id, c - 1);
                            }
                        }
                        if cbad == 1 {
                            s.insert(3, 1);
                        }
                        if cbom == 1 {
                            s.insert(5, 5);
                        }
                        // quick: the CRLF content and the BOM file only in states with <= 2 files
                        if tier == Tier::Quick && s.len() > 2 && (cbom == 1 || s.values().any(|c| *c == 4)) {
                            continue;
                        }
                        // quick: four-file states only where the three main ids hold the same content
                        if tier == Tier::Quick && s.len() > 3 && !(ca == cb && cb == cm) {
                            continue;
                        }
                        if !pruned(&s) {
                            states.push(s);
                        }
                    }
                }
            }
        }
    }
    let roots: Vec<Node> = states
        .iter()
        .map(|s| {
            let hist: Vec<Op> = s.iter().map(|(i, c)| Op::Add(*i, *c)).collect();
            let mut p = Parser::new();
            for op in &hist {
                env.apply(&mut p, *op);
            }
            Node {
                parser: p,
                abs: s.clone(),
                hist,
            }
        })
        .collect();
    let nstates = roots.len();
    // all suffixes of length 2 from every state; thorough: length 3 from the states with <= 2 files
    let small: Vec<Node> = if tier == Tier::Thorough {
        roots
            .iter()
            .filter(|n| n.abs.len() <= 2)
            .map(|n| Node { parser: n.parser.clone(), abs: n.abs.clone(), hist: n.hist.clone() })
            .collect()
    } else {
        Vec::new()
    };
    let nsmall = small.len();
    ex.explore(roots, &a, 2);
    stats.space(json!({"space": "all suffixes of length 2 from every reachable abstract state", "abstract_states": nstates, "operations": a.len()}));
    if !small.is_empty() {
        ex.explore(small, &a, 3);
        stats.space(json!({"space": "all suffixes of length 3 from the abstract states with <= 2 files", "abstract_states": nsmall, "operations": a.len()}));
    }
    eprintln!("  suffixes from {nstates} states: t={:.1}s", stats.elapsed());
    let distinct_states = ex.expected.lock().unwrap().len();
    let distinct_obs: std::collections::HashSet<u64> = ex
        .expected
        .lock()
        .unwrap()
        .values()
        .map(|o| fnv(&format!("{o:?}")))
        .collect();
    stats.set("abstract_states_visited", json!(distinct_states));
    stats.set("distinct_observations", json!(distinct_obs.len()));
    stats.set("transitions_pruned_same_key_two_kinds", json!(ex.pruned.load(std::sync::atomic::Ordering::Relaxed)));
    stats.sample(json!({"history": "add_content(m.aidl, c0); add_content(a.aidl, c1); add_content(b.aidl, c1); remove_content(a.aidl)", "contents": CONTENTS}));
    stats.sample(json!({"history": "add_content(a.aidl, c0); validate(); add_file(m.aidl) [missing -> Err]; add_content(a.aidl, c3)"}));
    finish(
        &stats,
        "explicit-state exploration of operation histories on the real Parser<PathBuf>: alphabet A (34 operations: add_content 3 ids x 5 contents (one of them the CRLF twin of another), 2 ids x a same-named parcelable in a sub-package + one id that exists on disk as invalid UTF-8, add_file of five readable files (a blank one, one under a non-canonical path, one starting with a byte order mark, one of 2 KiB with multi-byte characters across every 512-byte boundary) / a missing file / a non-UTF-8 file / a directory, remove_content of 5 ids, validate), alphabet B (11 operations); full history trees from the empty parser to the stated depths and all suffixes of the stated length from every reachable abstract state; after every transition validate() of the live object is compared with validate() of a fresh parser loaded with the abstract id -> content map (trees by equality, diagnostics as position-sorted lists, id tags, add_file's error status); states = transitions executed (every node is checked), distinct_nontrivial = distinct abstract states reached",
        &[
            "hook H4 (derive Clone on Parser) lets the explorer branch from a live object; every violation is re-confirmed by a from-scratch replay of the plain history without clones",
            "abstract states registering one key with two kinds (c1 and c2 together) are explored like all others (no pruning since the repair 74eb68d)",
        ],
        &|c| check_case(c).to_result(),
        &[
            ("several abstract states and observations occur", distinct_states > 50 && distinct_obs.len() > 10),
        ],
    )
}

pub fn replay(case: &Case) -> Result<(), String> {
    check_case(case).to_result()
}
