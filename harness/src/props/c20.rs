//! C20 — syntax-error messages name every token the parser was prepared to accept.

use super::{run_files, CheckResult};
use crate::report::{finish, fnv, Case, Stats, Tier};
use serde_json::json;

pub const PROP: &str = "C20";
pub const KEY_DROPS_SECOND_TO_LAST: &str = "expected_token_str-drops-second-to-last";

/// Token names in the "Expected ..." part of a message, by a closed lexicon: three-character
/// quoted signs ("x") and all-upper-case class names.
pub fn names_in_message(msg: &str) -> Vec<String> {
    let tail = match msg.find('\n') {
        Some(p) => &msg[p + 1..],
        None => "",
    };
    let cs: Vec<char> = tail.chars().collect();
    let mut out = Vec::new();
    let mut i = 0;
    while i < cs.len() {
        if cs[i] == '"' && i + 2 < cs.len() && cs[i + 2] == '"' {
            out.push(format!("\"{}\"", cs[i + 1]));
            i += 3;
        } else if cs[i].is_ascii_alphabetic() || cs[i] == '_' {
            let s = i;
            while i < cs.len() && (cs[i].is_ascii_alphanumeric() || cs[i] == '_') {
                i += 1;
            }
            let w: String = cs[s..i].iter().collect();
            if w.chars().all(|c| c.is_ascii_uppercase() || c == '_' || c.is_ascii_digit())
                && w.chars().any(|c| c.is_ascii_uppercase())
            {
                out.push(w);
            }
        } else {
            i += 1;
        }
    }
    out
}

pub fn check_case(case: &Case) -> CheckResult {
    let mut r = CheckResult::default();
    let obs = match run_files(&case.files) {
        Ok(o) => o,
        Err(p) => {
            r.fail(format!("library panicked: {p}"));
            return r;
        }
    };
    let id = &case.files[0].0;
    let pr = &obs.parse[id];
    let records: Vec<_> = obs.expected[0]
        .iter()
        .filter(|e| e.variant != "User")
        .collect();
    // Pair every expectation vector with the syntax diagnostic reported for the same source
    // span (hook H2 records the span of the parse error it was recorded for). Pairing is by
    // position only - never by wording, context message or hint, which no property pins -
    // and in emission order among diagnostics at the same span. Diagnostics left over were not
    // produced by the formatter (e.g. the transact-code check inside a grammar action).
    let mut taken = vec![false; pr.diagnostics.len()];
    let mut pairs: Vec<(&aidl_parser::verif_hooks::ExpectedRecord, &aidl_parser::diagnostic::Diagnostic)> = Vec::new();
    for rec in &records {
        let found = rec.span.and_then(|(lo, hi)| {
            pr.diagnostics
                .iter()
                .enumerate()
                .position(|(k, d)| !taken[k] && d.range.start.offset == lo && d.range.end.offset == hi)
        });
        match found {
            Some(k) => {
                taken[k] = true;
                pairs.push((*rec, &pr.diagnostics[k]));
            }
            // no diagnostic at that span: the error was not reported (or reported elsewhere);
            // nothing "reports what was expected" for this vector - C03 / C04 / C14 speak
            // about missing and misplaced syntax errors, C20 does not
            None => r.outcomes.push("vector-without-diagnostic-at-its-span".into()),
        }
    }
    r.outcomes.push(format!("errors-per-parse:{}", pairs.len().min(4)));
    for (rec, d) in pairs.iter() {
        // the statement speaks about errors that report an expectation; formatter calls
        // without an expectation set (invalid / extra token) have nothing to name
        if rec.expected.is_empty() && !d.message.contains('\n') {
            r.outcomes.push("expected-set-size:00".into());
            continue;
        }
        let mut want: Vec<String> = rec.expected.clone();
        let mut got = names_in_message(&d.message);
        let want_ordered = want.clone();
        want.sort();
        got.sort();
        r.outcomes.push(format!("expected-set-size:{:02}", want.len().min(20)));
        r.nontrivial = Some(fnv(&format!("{:?}", want)));
        if want != got {
            // recorded finding: exactly the second-to-last element is missing
            let mut minus = want_ordered.clone();
            let known = if minus.len() >= 3 {
                minus.remove(minus.len() - 2);
                minus.sort();
                minus == got
            } else {
                false
            };
            let msg = format!(
                "message names {:?} but the parser's expectation set is {:?} (message: {:?})",
                got, want_ordered, d.message
            );
            if known {
                r.fail_known(msg, KEY_DROPS_SECOND_TO_LAST);
            } else {
                r.fail(msg);
            }
        } else if want.len() >= 3 && case.files[0].1.len() < 100 {
            r.sample = Some(json!({"text": case.files[0].1, "expected": want_ordered, "message": d.message}));
        }
    }
    r
}

pub fn run(tier: Tier, seed: u64) -> i32 {
    let stats = Stats::new(PROP, tier, seed);
    for sp in super::c03::spaces(tier) {
        // the character-level spaces mostly produce lexer errors (no expectation set)
        let before = stats.states.load(std::sync::atomic::Ordering::Relaxed);
        super::drive(
            &stats,
            sp.n,
            1,
            |i| {
                let (label, text) = (sp.gen)(i);
                Some(Case {
                    prop: PROP.into(),
                    kind: sp.name.clone(),
                    label,
                    files: vec![(if i % 16 == 15 { "@file:f" } else { "f" }.into(), text)],
                    expect: json!(null),
                })
            },
            check_case,
        );
        let after = stats.states.load(std::sync::atomic::Ordering::Relaxed);
        stats.space(json!({"space": sp.name, "cases": after - before, "what": sp.describe}));
        eprintln!("  [{}] {} cases, t={:.1}s", sp.name, after - before, stats.elapsed());
    }
    stats.sample(json!({"text": "package p ; x", "note": "error point after the package statement"}));
    let multi = stats.outcome_count("errors-per-parse:2") + stats.outcome_count("errors-per-parse:3") + stats.outcome_count("errors-per-parse:4");
    finish(
        &stats,
        "every error point of the C03 spaces: for each syntax diagnostic the set of token names in the message is compared with the expectation vector the generated parser handed to the formatter (hook H2), in emission order; distinct_nontrivial counts distinct expectation vectors",
        &[
            "hook H2 records the raw `expected` vector inside Diagnostic::from_parse_error before it is formatted",
            "token names are extracted from messages with a closed lexicon (quoted one-character signs, upper-case class names)",
        ],
        &|c| check_case(c).to_result(),
        &[("syntax errors with an expectation vector occur", multi + stats.outcome_count("errors-per-parse:1") > 0)],
    )
}

pub fn replay(case: &Case) -> Result<(), String> {
    check_case(case).to_result()
}
