//! C10 — oneway is propagated from the interface and oneway methods must return void.

use super::c07::{category_types, observed_header};
use super::semacommon::*;
use super::CheckResult;
use crate::model::doc::*;
use crate::model::sema::{Loc, Rec};
use crate::report::{finish, fnv, Case, Stats, Tier};
use serde_json::json;

pub const PROP: &str = "C10";

fn return_types() -> Vec<(&'static str, Ty)> {
    let mut v = vec![("void", Ty::void()), ("array-of-void", Ty::array(Ty::void()))];
    v.extend(category_types().into_iter().filter(|c| c.0 != "array-of-parcelable" && c.0 != "raw-map"));
    // data values: user types spelled like the keyword up to letter case
    v.push(("unknown-type-named-Void", Ty::custom("Void")));
    v.push(("unknown-type-named-VOID", Ty::array(Ty::custom("VOID"))));
    v
}

/// form = (method oneway, return type index)
fn method_of(form: usize, idx: usize, rts: &[(&'static str, Ty)], same_name: bool) -> Method {
    let mut m = Method::new(
        rts[form / 2].1.clone(),
        &if same_name { "f".to_string() } else { format!("f{idx}") },
        vec![],
    );
    m.oneway = form % 2 == 1;
    m
}

/// variant: 0 plain, 1 constant first, 2 constant between, 3 all methods share one name,
/// 4 every method carries annotations, 5 another method has a transact code that overflows u32
/// (a parse-stage Error in the same file)
fn make_case(forms: &[usize], iface_oneway: bool, variant: usize) -> Case {
    let rts = return_types();
    let mut item = Item::new(ItemKind::Interface, "Obs");
    item.oneway = iface_oneway;
    let k = Member::Const(Const::new(Ty::prim("int"), "K", Value::Scalar(Scalar::Integer("1".into()))));
    if variant == 1 {
        item.members.push(k.clone());
    }
    for (i, f) in forms.iter().enumerate() {
        if variant == 2 && i == 1 {
            item.members.push(k.clone());
        }
        let mut m = method_of(*f, i, &rts, variant == 3);
        if variant == 4 {
            m.annots.push(Annot::simple("@Deprecated"));
            m.annots.push(crate::model::seeds::annot_with("@A", vec![("k", Some(Scalar::Integer("1".into())))], false));
        }
        item.members.push(Member::Method(m));
    }
    if variant == 6 {
        // data values: large (legal) explicit transact codes on every method
        let mut n = 0u64;
        for m in item.members.iter_mut() {
            if let Member::Method(mm) = m {
                mm.code = Some(match n % 3 {
                    0 => format!("{}", 16777215 + n),
                    1 => format!("{}", 4294967295 - n),
                    _ => format!("{}", 2147483648 + n),
                });
                n += 1;
            }
        }
    }
    if variant == 5 {
        let mut z = Method::new(Ty::void(), "zz", vec![]);
        z.code = Some("4294967296".into());
        item.members.push(Member::Method(z));
    }
    let mut files = super::c07::support_rot(variant == 4);
    files.push(ProjFile::from_doc_styled("obs", observed_header(item), forms.iter().sum::<usize>() % 3 == 1));
    let oi = files.len() - 1;
    let exp = expect_observed(&files, oi);
    let doc = files[oi].doc.as_ref().unwrap();
    let r = files[oi].rendered.as_ref().unwrap();
    let mut regions = Vec::new();
    for m in &doc.item.members {
        if let Member::Method(mm) = m {
            if mm.oneway {
                regions.push(Loc::exact(r.start(mm.oneway_tok), r.end(mm.oneway_tok)));
            }
            regions.push(Loc::exact(r.start(mm.ret.sym.first), r.end(mm.ret.sym.last)));
            if mm.ret.full != mm.ret.sym {
                regions.push(Loc::exact(r.start(mm.ret.full.first), r.end(mm.ret.full.last)));
            }
        }
    }
    let recs: Vec<Rec> = exp
        .recs
        .iter()
        .filter(|x| x.anchor.exact && regions.iter().any(|g| g.admits(x.anchor.lo, x.anchor.hi)))
        .cloned()
        .collect();
    let expect = expect_json(&exp, &recs, &regions, "obs");
    Case {
        prop: PROP.into(),
        kind: format!("methods{}-variant{}", forms.len(), variant),
        label: format!(
            "interface_oneway={iface_oneway} methods=[{}] variant={}",
            forms
                .iter()
                .map(|f| format!("{}{}", if f % 2 == 1 { "oneway " } else { "" }, rts[f / 2].0))
                .collect::<Vec<_>>()
                .join(", "),
            ["plain", "constant first", "constant between", "same method name", "annotated methods", "overflowing transact code elsewhere", "large transact codes"][variant]
        ),
        files: files.iter().map(|f| (f.id.clone(), f.text.clone())).collect(),
        expect,
    }
}

pub fn check_case(case: &Case) -> CheckResult {
    let mut r = check_region_case(case, false, true);
    if let Some(recs) = case.expect["recs"].as_array() {
        for x in recs {
            r.outcomes.push(format!("class:{}", x["class"].as_str().unwrap_or("")));
        }
        if recs.is_empty() {
            r.outcomes.push("class:none".into());
        }
    }
    r
}

pub fn run(tier: Tier, seed: u64) -> i32 {
    let stats = Stats::new(PROP, tier, seed);
    let rts = return_types();
    let nforms = rts.len() * 2;
    let mut lists: Vec<Vec<usize>> = vec![vec![]];
    for a in 0..nforms {
        lists.push(vec![a]);
    }
    let pair_forms: Vec<usize> = match tier {
        Tier::Quick => (0..nforms).collect(),
        Tier::Thorough => (0..nforms).collect(),
    };
    for a in &pair_forms {
        for b in &pair_forms {
            lists.push(vec![*a, *b]);
        }
    }
    let core: Vec<usize> = match tier {
        Tier::Quick => (0..nforms).filter(|f| [0usize, 1, 4, 14].contains(&(f / 2))).collect(),
        Tier::Thorough => (0..nforms).collect(),
    };
    for a in &core {
        for b in &core {
            for c in &core {
                lists.push(vec![*a, *b, *c]);
            }
        }
    }
    let n = lists.len() * 2 * 7;
    super::drive(
        &stats,
        n,
        1,
        |i| {
            let variant = i % 7;
            let io = (i / 7) % 2 == 1;
            let l = &lists[i / 14];
            if (variant == 2 && l.len() < 2) || (variant == 3 && l.len() < 2) || (variant == 1 && l.is_empty()) || (variant == 4 && l.is_empty()) {
                return None;
            }
            stats.nontrivial(fnv(&format!("{l:?}{io}{variant}")));
            let c = make_case(l, io, variant);
            if i % 1999 == 0 {
                stats.sample(json!({"label": c.label, "observed_file": c.files.last().unwrap().1}));
            }
            Some(c)
        },
        check_case,
    );
    stats.space(json!({"space": "method lists", "forms": nforms, "return_types": rts.iter().map(|r| r.0).collect::<Vec<_>>(), "lists": lists.len(), "interface_oneway": 2, "variants": ["plain", "constant first", "constant between", "same method name", "annotated methods", "overflowing transact code elsewhere", "large transact codes"]}));
    // size dimension: oneway interfaces with 8..=40 methods (all / every other one spelling oneway)
    let sizes = [8usize, 15, 16, 17, 18, 24, 33, 40];
    super::drive(
        &stats,
        sizes.len() * 4,
        1,
        |i| {
            let n = sizes[i / 4];
            let pat = i % 4;
            let forms: Vec<usize> = (0..n)
                .map(|k| {
                    let ow = match pat {
                        0 => 1,
                        1 => k % 2,
                        2 => (k >= n / 2) as usize,
                        _ => 0,
                    };
                    // return type: void, or int for every fifth method
                    (if k % 5 == 4 { 4 } else { 0 }) + ow
                })
                .collect();
            let c = make_case(&forms, pat != 3 || n % 2 == 0, 0);
            stats.nontrivial(fnv(&c.label));
            Some(c)
        },
        check_case,
    );
    stats.space(json!({"space": "long interfaces", "sizes": sizes, "patterns": 4}));
    let all = ["redundant-oneway", "oneway-must-return-void", "none"]
        .iter()
        .all(|c| stats.outcome_count(&format!("class:{c}")) > 0);
    finish(
        &stats,
        "interface oneway x every method list of length <= 1 over (method oneway x 19 return-type categories), pairs over the stated subset, triples over a 4-category core, each plain / with a constant first / with a constant in between / with all methods sharing one name / with annotated methods; the oneway flag of every method in the returned tree, the Warnings on `oneway` keywords and the Errors on return types are compared with the statement; distinct_nontrivial counts distinct (list, interface oneway, variant) tuples",
        &[
            "return-type categories are reached through real resolution (three supporting files)",
            "diagnostics are compared on the `oneway` keyword spans and return-type name spans (container Errors located there come from the same reference)",
        ],
        &|c| check_case(c).to_result(),
        &[("both diagnostics and clean interfaces occur", all)],
    )
}

pub fn replay(case: &Case) -> Result<(), String> {
    check_case(case).to_result()
}
