//! C19 — serialising a tree and reading it back gives an equal tree.

use super::c07::{category_types, observed_header, support};
use super::docspace::{c02_space, DocSpace, Lay};
use super::semacommon::{run_project, ProjFile};
use super::CheckResult;
use crate::model::doc::*;
use crate::model::seeds::annot_with;
use crate::report::{finish, fnv, Case, Stats, Tier};
use aidl_parser::ast;
use serde_json::json;

pub const PROP: &str = "C19";

fn roundtrip(a: &ast::Aidl) -> Result<(), String> {
    let s = ron::to_string(a).map_err(|e| format!("RON serialisation failed: {e}"))?;
    let back: ast::Aidl = ron::from_str(&s).map_err(|e| format!("RON deserialisation failed: {e} (text: {})", &s[..s.len().min(300)]))?;
    if &back != a {
        // triage aid: is the difference format-independent?
        let json_same = serde_json::to_string(a)
            .ok()
            .and_then(|j| serde_json::from_str::<ast::Aidl>(&j).ok())
            .map(|b| &b == a);
        let da = format!("{a:?}");
        let db = format!("{back:?}");
        let pos = da.bytes().zip(db.bytes()).position(|(x, y)| x != y).unwrap_or(da.len().min(db.len()));
        let lo = pos.saturating_sub(80);
        let lo = (0..=lo).rev().find(|i| da.is_char_boundary(*i) && db.is_char_boundary(*i)).unwrap_or(0);
        let cut = |s: &str| {
            let hi = (pos + 80).min(s.len());
            let hi = (hi..=s.len()).find(|i| s.is_char_boundary(*i)).unwrap_or(s.len());
            s[lo..hi].to_string()
        };
        return Err(format!(
            "tree changed in the RON round trip (JSON round trip equal: {:?}); original ...{}... read back ...{}...",
            json_same,
            cut(&da),
            cut(&db)
        ));
    }
    Ok(())
}

pub fn check_case(case: &Case) -> CheckResult {
    let mut r = CheckResult::default();
    let (parse, valid) = match run_project(case) {
        Ok(x) => x,
        Err(p) => {
            r.fail(format!("library panicked: {p}"));
            return r;
        }
    };
    let mut seen = 0;
    for (id, _) in &case.files {
        for (stage, res) in [("parse-stage", &parse), ("validated", &valid)] {
            if let Some(a) = res.get(id).and_then(|x| x.ast.as_ref()) {
                seen += 1;
                if let Err(e) = roundtrip(a) {
                    r.fail(format!("file {id} ({stage} tree): {e}"));
                }
                // the read-only helper API must not change what a tree serialises to or equals:
                // visit every symbol, ask it everything, then round-trip the same tree again
                aidl_parser::traverse::walk_symbols(a, aidl_parser::traverse::SymbolFilter::All, |s| {
                    let _ = (s.get_name(), s.get_qualified_name(), s.get_details(), s.get_signature(), s.get_range().start.offset);
                });
                aidl_parser::traverse::walk_types(a, |t| {
                    let _ = t.name.len();
                });
                if let Err(e) = roundtrip(a) {
                    r.fail(format!("file {id} ({stage} tree, after the symbol helpers were called on it): {e}"));
                }
                if stage == "validated" {
                    let d = format!("{a:?}");
                    for k in ["AndroidType(IBinder", "AndroidType(FileDescriptor", "AndroidType(ParcelFileDescriptor", "AndroidType(ParcelableHolder", "Interface)", "Parcelable)", "Enum)", "ForwardDeclaredParcelable", "UnknownImport", "Unresolved", "oneway: true", "doc: Some(\"\")", "transact_code: Some", "InOut(", "Out("] {
                        if d.contains(k) {
                            r.outcomes.push(format!("feature:{k}"));
                        }
                    }
                }
            }
        }
    }
    if seen == 0 {
        r.fail("MACHINERY: no tree in the case".into());
    }
    r
}

/// interface exercising the full presence product of optional fields
fn presence_docs() -> Vec<(Document, Vec<(usize, String)>)> {
    let mut out = Vec::new();
    let doc_texts = [
        "/** w */ ",
        "/** */ ",
        "/**\n * Größe 日本\n *\n * second 😀\n * @param x é\n */\n",
        "/** \"quoted\" \\ back */ ",
        // a star-only line before the end (documentation ending in a line break), and tag-only text
        "/**\n * Service interface.\n *\n */\n",
        "/** @hide */ ",
    ];
    // methods: oneway x annotations x code x doc
    for iface_oneway in [false, true] {
        let mut it = Item::new(ItemKind::Interface, "I");
        it.oneway = iface_oneway;
        let mut inserts_spec: Vec<(usize, usize)> = Vec::new(); // (member index, doc text index)
        let mut k = 0;
        for ow in [false, true] {
            for an in 0..3 {
                for code in [false, true] {
                    for doc in [None, Some(0usize), Some(1), Some(2), Some(3), Some(4), Some(5)] {
                        let mut m = Method::new(Ty::void(), &format!("m{k}"), vec![]);
                        m.oneway = ow;
                        match an {
                            1 => m.annots.push(Annot::simple("@A")),
                            2 => m.annots.push(annot_with(
                                "@A",
                                vec![("k", Some(Scalar::Str("\"é \\\" \"".replace("\\\"", "'").into()))), ("j", None)],
                                true,
                            )),
                            _ => {}
                        }
                        if code {
                            m.code = Some(match k % 5 {
                                0 => "4294967295".to_string(),
                                1 => "16777215".to_string(),
                                2 => "0".to_string(),
                                _ => format!("{}", 100 + k),
                            });
                        }
                        if let Some(d) = doc {
                            inserts_spec.push((it.members.len(), d));
                        }
                        it.members.push(Member::Method(m));
                        k += 1;
                    }
                }
            }
        }
        // arguments: direction(4) x name x annotations x doc, four per method
        let dirs = [None, Some("in"), Some("out"), Some("inout")];
        let mut arg_specs: Vec<(usize, usize, usize)> = Vec::new();
        for d in dirs {
            for named in [false, true] {
                for an in [false, true] {
                    for doc in [None, Some(0usize), Some(2)] {
                        let mut a = Arg::new(d, Ty::array(Ty::prim("int")), if named { Some("x") } else { None });
                        if an {
                            a.annots.push(annot_with("@B", vec![("v", Some(Scalar::Integer("1".into())))], false));
                        }
                        let mut m = Method::new(Ty::prim("int"), &format!("a{k}"), vec![a, Arg::new(Some("in"), Ty::string(), Some("s"))]);
                        m.code = None;
                        if let Some(dd) = doc {
                            arg_specs.push((it.members.len(), 0, dd));
                        }
                        it.members.push(Member::Method(m));
                        k += 1;
                    }
                }
            }
        }
        it.members.push(Member::Const(Const::new(Ty::string(), "S", Value::Scalar(Scalar::Str("\"é 😀 \\\\ \"".replace("\\\\", "/").into())))));
        let mut d = Document::new("p.q", it);
        d.imports.push(Import::new("a.b.C"));
        d.decls.push(Decl::new("Q"));
        let _ = emit(&mut d);
        let mut inserts = Vec::new();
        for (mi, di) in inserts_spec {
            inserts.push((d.item.members[mi].extent().0, doc_texts[di].to_string()));
        }
        for (mi, ai, di) in arg_specs {
            if let Member::Method(mm) = &d.item.members[mi] {
                inserts.push((mm.args[ai].span.first, doc_texts[di].to_string()));
            }
        }
        inserts.push((d.item.first_tok, doc_texts[2].to_string()));
        out.push((d, inserts));
    }
    // parcelable: field value x annotations x doc; enum: value x doc
    let mut pt = Item::new(ItemKind::Parcelable, "P");
    pt.annots.push(Annot::simple("@X"));
    let mut specs = Vec::new();
    let mut k = 0;
    for val in [None, Some(Value::Scalar(Scalar::Str("\"é\"".into()))), Some(Value::EmptyBraces)] {
        for an in [false, true] {
            for doc in [None, Some(0usize), Some(1), Some(2)] {
                let mut f = Field::new(Ty::map(Ty::string(), Ty::list(Ty::custom("Q"))), &format!("f{k}"), val.clone());
                if an {
                    f.annots.push(Annot::simple("@A"));
                }
                if let Some(d) = doc {
                    specs.push((pt.members.len(), d));
                }
                pt.members.push(Member::Field(f));
                k += 1;
            }
        }
    }
    let mut d = Document::new("p", pt);
    d.decls.push(Decl::new("Q"));
    let _ = emit(&mut d);
    let inserts = specs.iter().map(|(mi, di)| (d.item.members[*mi].extent().0, doc_texts[*di].to_string())).collect();
    out.push((d, inserts));
    let mut et = Item::new(ItemKind::Enum, "E");
    let mut especs = Vec::new();
    for (i, val) in [None, Some(Scalar::Integer("1".into())), Some(Scalar::Str("\"é\"".into()))].into_iter().enumerate() {
        for doc in [None, Some(0usize), Some(1), Some(2)] {
            if let Some(dd) = doc {
                especs.push((et.elems.len(), dd));
            }
            et.elems.push(EnumElem::new(&format!("V{i}_{}", et.elems.len()), val.clone()));
        }
    }
    let mut d = Document::new("p", et);
    let _ = emit(&mut d);
    let inserts = especs.iter().map(|(ei, di)| (d.item.elems[*ei].first_tok, doc_texts[*di].to_string())).collect();
    out.push((d, inserts));
    out
}

fn render_inserts(doc: &mut Document, inserts: &[(usize, String)], eol: &str) -> String {
    let toks = emit(doc);
    layout(&toks, &|i| {
        let mut gap = String::new();
        if i > 0 && i < toks.len() {
            if matches!(toks[i - 1].kind, crate::model::lex::Kind::Semi | crate::model::lex::Kind::LBrace | crate::model::lex::Kind::RBrace) {
                gap.push_str(eol);
            } else {
                gap.push(' ');
            }
        }
        for (at, t) in inserts {
            if *at == i {
                gap.push_str(&t.replace('\n', eol));
            }
        }
        Some(gap)
    })
    .text
}

pub fn run(tier: Tier, seed: u64) -> i32 {
    let stats = Stats::new(PROP, tier, seed);
    // (a) every document of the C02 space (default layout), parse-stage and validated trees
    let mut space = DocSpace::new();
    for e in c02_space(tier).entries {
        space.add(e.family, e.label, e.doc, Lay::Default);
    }
    super::drive(
        &stats,
        space.n,
        2,
        |i| {
            let (e, _l, rendered) = space.get(i);
            stats.nontrivial(fnv(&rendered.text));
            Some(Case {
                prop: PROP.into(),
                kind: format!("document/{}", e.family),
                label: e.label.clone(),
                files: vec![("f".into(), rendered.text)],
                expect: json!({}),
            })
        },
        check_case,
    );
    stats.space(json!({"space": "C02 documents (default layout)", "documents": space.n}));
    // (b) presence product of optional fields, with documentation, LF and CRLF
    let pres = presence_docs();
    let mut cases = Vec::new();
    for (d, ins) in &pres {
        for eol in ["\n", "\r\n"] {
            let mut d = d.clone();
            let text = render_inserts(&mut d, ins, eol);
            cases.push(Case {
                prop: PROP.into(),
                kind: "presence-product".into(),
                label: format!("presence product {:?} eol={eol:?}", d.item.kind),
                files: vec![("f".into(), text)],
                expect: json!({}),
            });
        }
    }
    // (c) every resolved kind: one field / argument per type category, real multi-file project
    for position in [0usize, 1] {
        let mut item = if position == 0 {
            Item::new(ItemKind::Parcelable, "Obs")
        } else {
            Item::new(ItemKind::Interface, "Obs")
        };
        for (i, (_, t)) in category_types().into_iter().enumerate() {
            for (j, ty) in [t.clone(), Ty::list(t.clone()), Ty::map(Ty::string(), Ty::array(t))].into_iter().enumerate() {
                let name = format!("n{i}_{j}");
                item.members.push(if position == 0 {
                    Member::Field(Field::new(ty, &name, None))
                } else {
                    Member::Method(Method::new(ty.clone(), &name, vec![Arg::new(Some("inout"), ty, None)]))
                });
            }
        }
        let mut files = support();
        files.push(ProjFile::from_doc("obs", observed_header(item)));
        cases.push(Case {
            prop: PROP.into(),
            kind: "resolved-kinds".into(),
            label: format!("every type category, position {position}"),
            files: files.iter().map(|f| (f.id.clone(), f.text.clone())).collect(),
            expect: json!({}),
        });
    }
    // (d) thorough: the validated trees of every C05 configuration (all resolution outcomes at
    // every depth and position)
    if tier == Tier::Thorough {
        let cfgs = super::c05::configs(Tier::Quick);
        for (i, c) in cfgs.iter().enumerate() {
            for which in 0..2 {
                let mut case = super::c05::make_case(c, which, None, super::semacommon::History::Plain, format!("C05 configuration {i} observed {which}"));
                case.prop = PROP.into();
                case.kind = "c05-configurations".into();
                cases.push(case);
            }
        }
    }
    let ncases = cases.len();
    super::drive(
        &stats,
        ncases,
        2,
        |i| {
            stats.nontrivial(fnv(&cases[i].files.last().unwrap().1));
            if i < 3 {
                let t = &cases[i].files.last().unwrap().1;
                stats.sample(json!({"label": cases[i].label, "text_start": t.chars().take(600).collect::<String>()}));
            }
            Some(cases[i].clone())
        },
        check_case,
    );
    stats.space(json!({"space": "presence product of optional fields (with documentation, LF/CRLF) and every resolved type kind", "cases": ncases}));
    let feats = ["AndroidType(IBinder", "AndroidType(ParcelableHolder", "Interface)", "Enum)", "ForwardDeclaredParcelable", "UnknownImport", "Unresolved", "oneway: true", "doc: Some(\"\")", "transact_code: Some", "InOut("];
    let all = feats.iter().all(|f| stats.outcome_count(&format!("feature:{f}")) > 0);
    finish(
        &stats,
        "every tree (parse-stage and validated) of the C02 document space, of the full presence product of optional fields (method oneway x annotations x transact code x documentation; argument direction x name x annotations x documentation; field value x annotations x documentation; enum value x documentation; interface oneway; empty, multi-paragraph, non-ASCII and CRLF documentation; annotation parameters with and without values) and of a multi-file project reaching every resolved type kind is serialised to RON and read back; the result must equal the original; distinct_nontrivial counts distinct source texts",
        &["ron 0.7 and serde_json are trusted; RON decides the verdict, the JSON round trip is recorded as triage aid"],
        &|c| check_case(c).to_result(),
        &[("every optional feature and resolved kind occurs in some tree", all)],
    )
}

pub fn replay(case: &Case) -> Result<(), String> {
    check_case(case).to_result()
}
