//! C17 — an item's qualified name is the key that references to it resolve to.

use super::c15::triple;
use super::semacommon::*;
use super::CheckResult;
use crate::model::doc::*;
use crate::model::sema::{resolve, Res};
use crate::model::traverse::{reference_symbols, RefSym};
use crate::report::{finish, fnv, Case, Stats, Tier};
use aidl_parser::traverse::{self, SymbolFilter};
use serde_json::json;

pub const PROP: &str = "C17";

const PKGS: [&str; 3] = ["p", "p.q", "com.ex.deep"];
const KINDS: [ItemKind; 3] = [ItemKind::Interface, ItemKind::Parcelable, ItemKind::Enum];

fn target(kind: ItemKind, pkg: &str, name: &str) -> Document {
    let mut it = Item::new(kind, name);
    match kind {
        ItemKind::Interface => {
            it.members.push(Member::Method(Method::new(
                Ty::void(),
                "run",
                vec![Arg::new(None, Ty::prim("int"), Some("count")), Arg::new(None, Ty::string(), None)],
            )));
            it.members.push(Member::Const(Const::new(Ty::prim("int"), "MAX", Value::Scalar(Scalar::Integer("1".into())))));
        }
        ItemKind::Parcelable => {
            it.members.push(Member::Field(Field::new(Ty::prim("int"), "size", None)));
            it.members.push(Member::Const(Const::new(Ty::string(), "TAG", Value::Scalar(Scalar::Str("\"t\"".into())))));
        }
        ItemKind::Enum => {
            it.elems.push(EnumElem::new("FIRST", None));
            it.elems.push(EnumElem::new("SECOND", Some(Scalar::Integer("2".into()))));
        }
    }
    Document::new(pkg, it)
}

fn nest(ctx: usize, t: Ty) -> Ty {
    match ctx {
        0 => t,
        1 => Ty::array(t),
        2 => Ty::list(t),
        3 => Ty::map(Ty::string(), Ty::list(Ty::array(t))),
        4 => Ty::map(Ty::string(), t),
        5 => Ty::list(Ty::list(Ty::list(Ty::list(t)))),
        _ => Ty::map(Ty::list(t.clone()), Ty::array(Ty::array(t))),
    }
}

fn referrer(name: &str, imports: &[String], written: &str, extra: Option<&str>, position: usize, ctx: usize) -> Document {
    let t = nest(ctx, Ty::custom(written));
    let mut it = if position < 2 {
        Item::new(ItemKind::Interface, name)
    } else {
        Item::new(ItemKind::Parcelable, name)
    };
    it.members.push(match position {
        0 => Member::Method(Method::new(t, "get", vec![])),
        1 => Member::Method(Method::new(Ty::void(), "put", vec![Arg::new(Some("in"), t, Some("value"))])),
        2 => Member::Field(Field::new(t, "value", None)),
        _ => Member::Const(Const::new(t, "VALUE", Value::EmptyBraces)),
    });
    if let Some(x) = extra {
        it.members.push(if position < 2 {
            Member::Method(Method::new(Ty::custom(x), "other", vec![]))
        } else {
            Member::Field(Field::new(Ty::custom(x), "other", None))
        });
    }
    let mut d = Document::new("ref.pkg", it);
    d.imports = imports.iter().map(|i| Import::new(i)).collect();
    // size dimension: half of the cases carry 12 more (unrelated) imports
    if (position + ctx) % 2 == 1 {
        for k in 0..12 {
            d.imports.insert(k % (d.imports.len() + 1), Import::new(&format!("pad.k{}.Pad{k}", k % 3)));
        }
    }
    d
}

fn written_forms(pkg: &str, tname: &str) -> Vec<String> {
    let segs: Vec<&str> = pkg.split('.').collect();
    let mut v = vec![tname.to_string(), format!("{pkg}.{tname}")];
    if segs.len() >= 2 {
        v.push(format!("{}.{tname}", segs[segs.len() - 1]));
    }
    v
}

fn make_case(ki: usize, pi: usize, position: usize, ctx: usize, wi: usize, h: History, split: bool, tname: &str) -> Option<Case> {
    let kind = KINDS[ki];
    let pkg = PKGS[pi];
    let forms = written_forms(pkg, tname);
    let written = forms.get(wi)?;
    let other_kind = KINDS[(ki + 1) % 3];
    // `split`: every token of the target and of the referrers on its own line (layout inside
    // dotted names)
    let mk = |id: &str, mut d: Document| {
        if split {
            let toks = emit(&mut d);
            let r = crate::model::layout::render(
                &toks,
                &crate::model::layout::Layout { name: "split".into(), dev: vec![], base: Some(" /* c */\n".into()) },
            );
            ProjFile::from_rendered(id, d, r)
        } else {
            ProjFile::from_doc(id, d)
        }
    };
    let files = vec![
        mk("tgt", target(kind, pkg, tname)),
        ProjFile::from_doc("atgt", target(ItemKind::Enum, pkg, &format!("A{tname}"))),
        ProjFile::from_doc("other", target(other_kind, "zz", tname)),
        mk(
            "ref1",
            referrer("Ref1", &[format!("{pkg}.{tname}"), format!("{pkg}.A{tname}")], written, Some(&format!("A{tname}")), position, ctx),
        ),
        mk("ref2", referrer("Ref2", &[format!("zz.{tname}")], tname, None, position, ctx)),
    ];
    let facts = facts_of(&files);
    let mut expect = serde_json::Map::new();
    for f in &files {
        let doc = f.doc.as_ref().unwrap();
        let mut syms: Vec<RefSym> = reference_symbols(doc, f.rendered.as_ref().unwrap());
        // type symbols that resolve to an item carry that item's key
        fn find<'a>(t: &'a Ty, path: &str, want: &str) -> Option<&'a Ty> {
            if path == want {
                return Some(t);
            }
            for (i, c) in t.children().iter().enumerate() {
                if let Some(x) = find(c, &format!("{path}.g{i}"), want) {
                    return Some(x);
                }
            }
            None
        }
        for s in syms.iter_mut().filter(|s| s.kind == "Type") {
            let path = s.path.clone().unwrap();
            let mut found: Option<&Ty> = None;
            for (i, m) in doc.item.members.iter().enumerate() {
                let p = format!("m{i}");
                match m {
                    Member::Method(mm) => {
                        found = found.or(find(&mm.ret, &format!("{p}.ret"), &path));
                        for (j, a) in mm.args.iter().enumerate() {
                            found = found.or(find(&a.ty, &format!("{p}.a{j}.type"), &path));
                        }
                    }
                    Member::Const(c) => found = found.or(find(&c.ty, &format!("{p}.type"), &path)),
                    Member::Field(fl) => found = found.or(find(&fl.ty, &format!("{p}.type"), &path)),
                }
            }
            if let Some(Ty { kind: TyKind::Custom(segs), .. }) = found {
                if let Res::Item(key, _) = resolve(&segs.join("."), doc, &facts) {
                    s.qualified = Some(key);
                }
            }
        }
        expect.insert(f.id.clone(), json!({"symbols": syms, "key": doc.key()}));
    }
    if h != History::Plain {
        expect.insert("ops".into(), history_ops(&files, h));
    }
    Some(Case {
        prop: PROP.into(),
        kind: format!("{kind:?}"),
        label: format!(
            "target {kind:?} {pkg}.{tname} referenced as `{written}` in context {ctx} position {} history {h:?}",
            ["return", "argument", "field", "constant"][position]
        ),
        files: files.iter().map(|f| (f.id.clone(), f.text.clone())).collect(),
        expect: serde_json::Value::Object(expect),
    })
}

pub fn check_case(case: &Case) -> CheckResult {
    let mut r = CheckResult::default();
    let (_parse, valid) = match run_project(case) {
        Ok(x) => x,
        Err(p) => {
            r.fail(format!("library panicked: {p}"));
            return r;
        }
    };
    let mut errs = Vec::new();
    for (id, _) in &case.files {
        let tree = match valid.get(id).and_then(|v| v.ast.as_ref()) {
            Some(t) => t,
            None => {
                errs.push(format!("file {id}: no tree"));
                continue;
            }
        };
        let syms: Vec<RefSym> = serde_json::from_value(case.expect[id]["symbols"].clone()).unwrap_or_default();
        let key = case.expect[id]["key"].as_str().unwrap_or("");
        if tree.get_key() != key {
            errs.push(format!("file {id}: registration key is {:?}, expected {key:?}", tree.get_key()));
        }
        let mut got = Vec::new();
        traverse::walk_symbols(tree, SymbolFilter::All, |s| got.push((triple(&s), s.get_qualified_name(), s.get_name())));
        // (an unnamed argument has no name span to compare: C04 / C15 do not pin it either)
        if got.len() != syms.len() || got.iter().zip(syms.iter()).any(|(g, s)| g.0 .0 != s.kind || (!(s.kind == "Arg" && s.name.is_none()) && (g.0 .2, g.0 .3) != (s.start, s.end))) {
            // traversal itself differs: C15's business
            r.outcomes.push("skipped (traversal order differs: C15)".into());
            if std::env::var("VERIF_DEBUG_C17").is_ok() {
                let d = got.iter().zip(syms.iter()).position(|(g, s)| g.0 .0 != s.kind || (g.0 .2, g.0 .3) != (s.start, s.end));
                eprintln!("SKIP {id} got={} want={} first_diff={:?} got={:?} want={:?}", got.len(), syms.len(), d, d.map(|i| &got[i]), d.map(|i| (&syms[i].kind, syms[i].start, syms[i].end)));
            }
            continue;
        }
        for (g, s) in got.iter().zip(syms.iter()) {
            if let Some(q) = &s.qualified {
                if g.1.as_ref() != Some(q) {
                    errs.push(format!(
                        "file {id}: {} `{}` at {}..{}: qualified name is {:?}, expected {:?}",
                        s.kind,
                        s.name.clone().unwrap_or_default(),
                        s.start,
                        s.end,
                        g.1,
                        q
                    ));
                }
                if s.kind == "Type" {
                    r.outcomes.push("type-symbol-resolving-to-item".into());
                }
            }
            // plain names of item / member / named argument / enum element symbols
            if matches!(s.kind.as_str(), "Interface" | "Parcelable" | "Enum" | "Method" | "Const" | "Field" | "EnumElement" | "Arg") && g.2 != s.name {
                errs.push(format!("file {id}: {} symbol's name is {:?}, expected {:?}", s.kind, g.2, s.name));
            }
        }
    }
    r.outcomes.push("projects".into());
    errs.truncate(5);
    for e in errs {
        r.fail(e);
    }
    r
}

pub fn run(tier: Tier, seed: u64) -> i32 {
    let stats = Stats::new(PROP, tier, seed);
    let nctx = tier.pick(4, 7);
    let hists: Vec<History> = match tier {
        Tier::Quick => vec![History::Plain, History::Replaced, History::ExtraBroken],
        Tier::Thorough => vec![History::Plain, History::Replaced, History::ExtraRemoved, History::Reversed, History::ExtraBroken],
    };
    // target names: an ordinary one and one that equals a built-in's simple name
    let names = ["Tgt", "IBinder", "ParcelableHolder"];
    let n = 3 * 3 * 4 * nctx * 3 * hists.len() * 2 * names.len();
    super::drive(
        &stats,
        n,
        5,
        |i| {
            let tname = names[i % names.len()];
            let i = i / names.len();
            let split = i % 2 == 1;
            let i = i / 2;
            let h = hists[i % hists.len()];
            let i = i / hists.len();
            let wi = i % 3;
            let ctx = (i / 3) % nctx;
            let position = (i / (3 * nctx)) % 4;
            let pi = (i / (12 * nctx)) % 3;
            let ki = i / (36 * nctx);
            let mut c = make_case(ki, pi, position, ctx, wi, h, split, tname)?;
            if split {
                c.label.push_str(" (referrers laid out one token per line)");
            }
            stats.nontrivial(fnv(&c.label));
            if i % 37 == 0 {
                stats.sample(json!({"label": c.label, "files": c.files}));
            }
            Some(c)
        },
        check_case,
    );
    stats.space(json!({"space": "item kind x package depth x referencing position x nesting context x written form", "item_kinds": 3, "package_depths": 3, "positions": 4, "contexts": nctx, "histories": hists.len(), "written_forms": "simple / fully qualified / partially qualified (packages of depth >= 2)", "files_per_project": 5}));
    let hit = stats.outcome_count("type-symbol-resolving-to-item");
    finish(
        &stats,
        "five-file projects: a target item of every kind (named ordinarily or like a built-in) in packages of depth 1-3 (with members of every kind), a same-package item whose name has the target's name as suffix, a same-named item of another kind in another package, and two referrers; the target is referenced in return / argument / field / constant position, bare and nested to depth 3, written simple / partially / fully qualified; for every symbol of every file get_qualified_name / get_name are compared with the statement (item: package.Name = registration key = qualified name of every type symbol resolving to it; members Owner::member; imports and package dotted); distinct_nontrivial counts distinct project configurations",
        &["expected names come from the document model and the reference resolution rule; a file whose traversal order differs from the reference is skipped here (C15's business) and counted"],
        &|c| check_case(c).to_result(),
        &[("type symbols resolving to items were compared", hit > 0)],
    )
}

pub fn replay(case: &Case) -> Result<(), String> {
    check_case(case).to_result()
}
