//! C01 — parsing and validation are total: any text, no panic, one result per id.
//!
//! Process structure: `C01` (supervisor) runs `C01-child`, which explores every space on all
//! cores under catch_unwind and records the in-flight case of every worker in a file; if the
//! child dies (abort, stack overflow) or reports a hang, the supervisor re-runs every in-flight
//! case alone (`C01-one`) to attribute the failure.

use super::seqspace::{self};
use super::CheckResult;
use crate::engine::guarded;
use crate::model::doc::*;
use crate::model::layout::{self, NASTY_FILLERS};
use crate::model::seeds;
use crate::report::{finish, fnv, out_dir, Case, Stats, Tier, Violation, VERIF_DIR};
use aidl_parser::Parser;
use rayon::prelude::*;
use serde_json::json;
use std::io::{Seek, SeekFrom, Write};
use std::sync::Mutex;
use std::time::{Duration, Instant};

pub const PROP: &str = "C01";

pub struct FSpace {
    pub name: String,
    pub n: usize,
    pub describe: String,
    pub gen: Box<dyn Fn(usize) -> (String, Vec<(String, String)>) + Sync + Send>,
    /// wall-clock limit per case (seconds)
    pub limit_s: u64,
}

fn from_text(sp: seqspace::Space) -> FSpace {
    let g = sp.gen;
    FSpace {
        name: sp.name,
        n: sp.n,
        describe: sp.describe,
        gen: Box::new(move |i| {
            let (l, t) = g(i);
            (l, vec![("f".to_string(), t)])
        }),
        limit_s: 120,
    }
}

const PROJECT_CONTENTS: [&str; 5] = [
    "package p; import p.B; interface A { void f(in B b); }",
    "package p; parcelable B { int x; }",
    "package p; interface C { void f( ; void g(); }",
    "package p; interfac X {",
    "",
];

fn nesting_family() -> FSpace {
    FSpace {
        name: "FAMILY/nesting-depth".into(),
        n: 65 * 4,
        describe: "generic nesting depth 0..=64 with List<, Map<String,, [] and a mix".into(),
        limit_s: 120,
        gen: Box::new(|i| {
            let d = i / 4;
            let t = match i % 4 {
                0 => format!("{}int{}", "List<".repeat(d), ">".repeat(d)),
                1 => format!("{}int{}", "Map<String,".repeat(d), ">".repeat(d)),
                2 => format!("int{}", "[]".repeat(d)),
                _ => {
                    let mut s = "Foo".to_string();
                    for k in 0..d {
                        s = match k % 3 {
                            0 => format!("List<{s}>"),
                            1 => format!("Map<String,{s}>"),
                            _ => format!("{s}[]"),
                        };
                    }
                    s
                }
            };
            (
                format!("depth {d} kind {}", i % 4),
                vec![(
                    "f".into(),
                    format!("package p; interface I {{ {t} f(in {t} a); const {t} K = {{}}; }}"),
                )],
            )
        }),
    }
}

fn size_family(max_bytes: usize) -> FSpace {
    // (shape, single_line) x sizes by doubling
    let mut sizes = Vec::new();
    let mut s = 16;
    while s <= max_bytes {
        sizes.push(s);
        s *= 2;
    }
    let shapes = 6;
    let n = shapes * 2 * sizes.len();
    FSpace {
        name: format!("FAMILY/sizes-to-{}KiB", max_bytes / 1024),
        n,
        describe: "member count / identifier length / comment length / doc-comment length / string length / garbage length by doubling, single-line and multi-line".into(),
        limit_s: 900,
        gen: Box::new(move |i| {
            let size = sizes[i % sizes.len()];
            let single = (i / sizes.len()) % 2 == 0;
            let shape = i / (sizes.len() * 2);
            let nl = if single { " " } else { "\n" };
            let text = match shape {
                0 => {
                    let mut t = format!("package p;{nl}interface I {{{nl}");
                    let mut k = 0;
                    while t.len() < size {
                        t.push_str(&format!("  /** d{k} é */ void m{k}(in String a{k}, int[] b) = {k};{nl}"));
                        k += 1;
                    }
                    t.push('}');
                    t
                }
                1 => format!("package p;{nl}interface {} {{ }}", "x".repeat(size)),
                2 => format!("package p;{nl}/* {} */{nl}interface I {{ }}", "c é ".repeat(size / 5)),
                3 => format!(
                    "package p;{nl}interface I {{{nl}/**{nl} * {}{nl} */{nl}void f(); }}",
                    format!("w é{nl} * ").repeat(size / 8)
                ),
                4 => format!("package p;{nl}interface I {{ const String S = \"{}\"; }}", "s日".repeat(size / 4)),
                _ => format!("package p;{nl}interface I {{ {} }}", format!("void ( ; = {nl}").repeat(size / 12)),
            };
            (
                format!("shape {shape} {} ~{size} bytes", if single { "single-line" } else { "multi-line" }),
                vec![("f".into(), text)],
            )
        }),
    }
}

fn projects_family(max_ids: usize) -> FSpace {
    let mut offsets = vec![0usize];
    for n in 0..=max_ids {
        offsets.push(offsets.last().unwrap() + 5usize.pow(n as u32));
    }
    let total = *offsets.last().unwrap();
    FSpace {
        name: format!("PROJECTS/ids<={max_ids}"),
        n: total,
        describe: "every assignment of 5 representative contents (valid interface, valid parcelable, recovered-error file, unrecovered-error file, empty string) to 0..=n ids; ids are strings or values of a type whose Debug output collapses several ids".into(),
        limit_s: 120,
        gen: Box::new(move |i| {
            let n = (0..=max_ids).find(|n| i < offsets[n + 1]).unwrap();
            let digits = crate::engine::digits(i - offsets[n], 5, n);
            (
                format!("contents {digits:?}"),
                digits
                    .iter()
                    .enumerate()
                    // id types: plain strings, or (two out of three cases) a user type whose
                    // Debug output does not tell all ids apart (Eq and Hash do)
                    .map(|(k, c)| {
                        let id = match i % 3 {
                            0 => format!("id{k}"),
                            1 => format!("#odd:same:{k}"),
                            _ => format!("#odd:u{}:{k}", k % 2),
                        };
                        (id, PROJECT_CONTENTS[*c].to_string())
                    })
                    .collect(),
            )
        }),
    }
}

fn injection_family(seed_idx: usize, two: bool) -> FSpace {
    let (name, mut doc) = seeds::all().swap_remove(seed_idx);
    let toks = emit(&mut doc);
    let mut layouts = layout::base_layouts(&NASTY_FILLERS);
    layouts.extend(layout::one_deviation(&toks, &NASTY_FILLERS));
    if two {
        layouts.extend(layout::two_deviations(&toks, &NASTY_FILLERS));
    }
    let n = layouts.len();
    FSpace {
        name: format!("E-INJ/{name}/d={}", if two { 2 } else { 1 }),
        n,
        describe: format!("seed `{name}`: every token gap x every nasty filler (multi-byte, NBSP, U+2028, CR, combining mark, ZWJ emoji, doc comments with multi-byte text, /**/), {} deviation(s), plus uniform layouts", if two { 2 } else { 1 }),
        limit_s: 120,
        gen: Box::new(move |i| {
            let r = layout::render(&toks, &layouts[i]);
            (format!("{name} @ {}", layouts[i].name), vec![("f".into(), r.text)])
        }),
    }
}

fn validation_soup() -> FSpace {
    let imports = ["a.B", "q.E", "long.pkg.name.Thing", "android.os.IBinder", "x.y.Q"];
    let names = ["Unknown", "com.example.data.Payload", "B", "x", "y.Q", "IBinder", "a.b.c.d.e.f.g.H", "E"];
    let decls = ["", "parcelable E;", "parcelable Unknown; parcelable x.y.Q;"];
    let n = 32 * names.len() * decls.len() * 4;
    FSpace {
        name: "VALIDATION-SOUP".into(),
        n,
        describe: "every subset of 5 imports x 8 written type names (shorter and longer than the imports) x 3 forward-declaration sets x interface / parcelable / oneway interface / oneway methods returning raw containers, types at depth 0-3".into(),
        limit_s: 120,
        gen: Box::new(move |i| {
            let kind = i % 4;
            let d = (i / 4) % decls.len();
            let nm = names[(i / (4 * decls.len())) % names.len()];
            let mask = i / (4 * decls.len() * names.len());
            let imps: String = imports
                .iter()
                .enumerate()
                .filter(|(k, _)| mask & (1 << k) != 0)
                .map(|(_, s)| format!("import {s}; "))
                .collect();
            let body = if kind == 0 {
                format!("interface I {{ {nm} f(in {nm} a, out List<{nm}> b, Map<String, List<{nm}[]>> c); const {nm} K = 1; }}")
            } else if kind == 1 {
                format!("parcelable P {{ {nm} a; {nm}[] b; List<Map<{nm}, {nm}>> c; }}")
            } else if kind == 2 {
                // raw containers, also as returned values of oneway methods
                format!("oneway interface I {{ List f(); Map g(in List a, out Map b); List<Map> h(in List<List> c); oneway {nm} k(inout {nm} x); List<{nm}>[] l(); }}")
            } else {
                format!("interface I {{ oneway List f(); oneway Map g(in Map a); oneway List<{nm}> h(); oneway {nm}[] k(in List<Map<{nm}>> x); oneway void l(out List m, inout {nm}... ); }}")
            };
            (
                format!("imports mask {mask:05b} name {nm} decls {d} kind {kind}"),
                vec![("f".into(), format!("package o; {imps}{} {body}", decls[d]))],
            )
        }),
    }
}

pub fn spaces(tier: Tier) -> Vec<FSpace> {
    let q = tier == Tier::Quick;
    let mut v = Vec::new();
    // (a) character trees
    v.push(from_text(seqspace::echar(3, if q { 3 } else { 4 })));
    v.push(from_text(seqspace::echar(4, if q { 3 } else { 4 })));
    v.push(from_text(seqspace::echar(5, if q { 4 } else { 4 })));
    v.push(from_text(seqspace::echar(6, if q { 4 } else { 5 })));
    v.push(from_text(seqspace::echar(7, if q { 3 } else { 4 })));
    v.push(from_text(seqspace::echar(0, 3)));
    v.push(from_text(seqspace::echar(2, if q { 4 } else { 5 })));
    // (b) token-sequence trees
    for f in 0..16 {
        v.push(from_text(seqspace::eseq(f, if q { 2 } else { 3 })));
    }
    for s in 0..6 {
        v.push(from_text(seqspace::eedit1(s)));
    }
    v.push(from_text(seqspace::lexeme_variants()));
    v.push(from_text(seqspace::keyword_table()));
    v.push(from_text(seqspace::unicode_words()));
    // (c) nasty fillers in every gap
    for s in 0..6 {
        v.push(injection_family(s, false));
    }
    if !q {
        v.push(injection_family(4, true));
        v.push(injection_family(5, true));
    }
    // (d) parametric families
    v.push(nesting_family());
    v.push(size_family(if q { 16 << 10 } else { 64 << 10 }));
    // (e) projects
    v.push(projects_family(if q { 4 } else { 6 }));
    // (f) validation-stage soup
    v.push(validation_soup());
    v
}

/// Run one case: add every file, validate; the property's oracle.
/// An id type whose `Debug` shows only part of the value (`Eq` / `Hash` see all of it).
#[derive(Clone, PartialEq, Eq, Hash)]
struct OddId {
    uri: String,
    version: String,
}
impl std::fmt::Debug for OddId {
    fn fmt(&self, f: &mut std::fmt::Formatter<'_>) -> std::fmt::Result {
        write!(f, "OddId({})", self.uri)
    }
}
impl OddId {
    fn parse(s: &str) -> OddId {
        let rest = s.trim_start_matches("#odd:");
        let (uri, version) = rest.split_once(':').unwrap_or((rest, ""));
        OddId { uri: uri.to_string(), version: version.to_string() }
    }
    fn show(&self) -> String {
        format!("#odd:{}:{}", self.uri, self.version)
    }
}

pub fn run_case(files: &[(String, String)]) -> Result<(), String> {
    let odd = files.iter().any(|f| f.0.starts_with("#odd:"));
    let res = guarded(|| {
        if odd {
            let mut p: Parser<OddId> = Parser::new();
            for (id, t) in files {
                p.add_content(OddId::parse(id), t);
            }
            let r1 = p.validate();
            let _ = aidl_parser::verif_hooks::take_expected();
            let _ = aidl_parser::verif_hooks::take_orders();
            let mut got: Vec<(String, String)> = r1.iter().map(|(k, v)| (k.show(), v.id.show())).collect();
            got.sort();
            return got;
        }
        let mut p: Parser<String> = Parser::new();
        for (id, t) in files {
            p.add_content(id.clone(), t);
        }
        let r1 = p.validate();
        let _ = aidl_parser::verif_hooks::take_expected();
        let _ = aidl_parser::verif_hooks::take_orders();
        let mut got: Vec<(String, String)> = r1.iter().map(|(k, v)| (k.clone(), v.id.clone())).collect();
        got.sort();
        got
    });
    match res {
        Err(p) => Err(format!("panicked: {p}")),
        Ok(got) => {
            let mut want: Vec<String> = files.iter().map(|f| f.0.clone()).collect();
            want.sort();
            want.dedup();
            let keys: Vec<String> = got.iter().map(|g| g.0.clone()).collect();
            if keys != want {
                return Err(format!("result holds ids {keys:?} but the parser holds {want:?}"));
            }
            for (k, tag) in &got {
                if k != tag {
                    return Err(format!("result for id {k} is tagged with id {tag}"));
                }
            }
            Ok(())
        }
    }
}

pub fn check_case(case: &Case) -> CheckResult {
    let mut r = CheckResult::default();
    if let Err(e) = run_case(&case.files) {
        r.fail(e);
    }
    r
}

fn inflight_dir() -> String {
    match std::env::var("VERIF_OUT_DIR") {
        Ok(d) => format!("{d}/c01-inflight"),
        Err(_) => format!("{VERIF_DIR}/target/c01-inflight"),
    }
}

/// child: explore everything; exit code 0 / 1 / 2 as every check, 3 = a case exceeded its limit
thread_local! {
    /// the last inputs this worker thread has executed (attribution of state-dependent failures)
    static RECENT: std::cell::RefCell<std::collections::VecDeque<Case>> = std::cell::RefCell::new(std::collections::VecDeque::new());
}

pub fn run_child(tier: Tier, seed: u64) -> i32 {
    let stats = Stats::new(PROP, tier, seed);
    let dir = inflight_dir();
    let _ = std::fs::remove_dir_all(&dir);
    std::fs::create_dir_all(&dir).expect("inflight dir");
    let nthreads = rayon::current_num_threads();
    let slots: Vec<Mutex<(Option<Instant>, String, u64)>> = (0..nthreads + 1).map(|_| Mutex::new((None, String::new(), 120))).collect();
    let files: Vec<Mutex<std::fs::File>> = (0..nthreads + 1)
        .map(|i| Mutex::new(std::fs::File::create(format!("{dir}/{i}.txt")).expect("slot file")))
        .collect();
    let slots = std::sync::Arc::new(slots);
    // watchdog
    {
        let slots = slots.clone();
        let dir = dir.clone();
        std::thread::spawn(move || loop {
            std::thread::sleep(Duration::from_secs(2));
            for s in slots.iter() {
                let g = s.lock().unwrap();
                if let (Some(t), desc, limit) = (&g.0, &g.1, g.2) {
                    if t.elapsed() > Duration::from_secs(limit) {
                        let _ = std::fs::write(format!("{dir}/hang.txt"), desc);
                        eprintln!("C01-child: case exceeded its limit of {limit}s: {desc}");
                        std::process::exit(3);
                    }
                }
            }
        });
    }
    for sp in spaces(tier) {
        let before = stats.states.load(std::sync::atomic::Ordering::Relaxed);
        (0..sp.n).into_par_iter().for_each(|i| {
            if stats.past_cap() {
                return;
            }
            let slot = rayon::current_thread_index().unwrap_or(nthreads);
            let desc = format!("{}\t{}", sp.name, i);
            {
                let mut g = slots[slot].lock().unwrap();
                *g = (Some(Instant::now()), desc.clone(), sp.limit_s);
                let mut f = files[slot].lock().unwrap();
                let _ = f.seek(SeekFrom::Start(0));
                let _ = f.write_all(format!("{desc:<200}\n").as_bytes());
            }
            let (label, fl) = (sp.gen)(i);
            let r = run_case(&fl);
            {
                let mut g = slots[slot].lock().unwrap();
                g.0 = None;
                let mut f = files[slot].lock().unwrap();
                let _ = f.seek(SeekFrom::Start(0));
                let _ = f.write_all(format!("{:<200}\n", "").as_bytes());
            }
            stats.case_done(1);
            stats.nontrivial(fnv(&format!("{fl:?}")));
            if i % 20011 == 0 {
                let t = &fl.first().map(|f| f.1.clone()).unwrap_or_default();
                stats.sample(json!({"space": sp.name, "label": label, "text": t.chars().take(300).collect::<String>()}));
            }
            let this = Case {
                prop: PROP.into(),
                kind: sp.name.clone(),
                label,
                files: fl,
                expect: json!(null),
            };
            if let Err(e) = r {
                stats.outcome("violating-cases");
                // by itself (fresh thread), or only after what this worker thread ran before?
                let alone = crate::engine::seeded(super::case_seed(&this), || run_case(&this.files));
                match alone {
                    Err(e2) => stats.violation(Violation { case: this.clone(), message: e2, finding_key: None }),
                    Ok(()) => {
                        let before: Vec<Case> = RECENT.with(|q| q.borrow().iter().cloned().collect());
                        let mut ic = this.clone();
                        ic.expect = json!({"__inner": null, "__after": before});
                        ic.kind = format!("interference/{}", ic.kind);
                        stats.violation(Violation {
                            case: ic,
                            message: format!("the verdict for this input depends on what the thread did before ({} earlier inputs) - alone it passes: {e}", before.len()),
                            finding_key: None,
                        });
                    }
                }
            }
            // remember the last inputs of this worker thread (small ones only)
            if this.files.iter().map(|f| f.1.len()).sum::<usize>() < 4096 {
                RECENT.with(|q| {
                    let mut q = q.borrow_mut();
                    if q.len() >= 12 {
                        q.pop_front();
                    }
                    q.push_back(this);
                });
            }
        });
        let after = stats.states.load(std::sync::atomic::Ordering::Relaxed);
        stats.space(json!({"space": sp.name, "cases": after - before, "what": sp.describe}));
        eprintln!("  [{}] {} cases, t={:.1}s", sp.name, after - before, stats.elapsed());
    }
    let _ = std::fs::remove_dir_all(&dir);
    finish(
        &stats,
        "character-level trees (whole file, member trivia, inside a doc comment, inside a string, transact-code slot, value slot, comment delimiters), token-sequence trees in 14 frames, single token edits of six seeds, nasty fillers (multi-byte, Unicode whitespace, CR, combining marks, doc comments) in every token gap, parametric families (generic nesting depth 0..=64, sizes by doubling to the stated limit, single- and multi-line), every assignment of 5 representative contents to up to n ids, and an import x type-name x declaration soup for the validation stage; each case: add_content for every file + validate() under catch_unwind inside a supervised child process (aborts / hangs are attributed by re-running the in-flight cases alone); oracle: returns, key set = id set, every result tagged with its id; distinct_nontrivial counts distinct inputs",
        &[
            "a wall-clock limit per case (120 s; 900 s for the size families, where the line/column lookup is quadratic in the line length) separates slow from hanging",
            "nesting deeper than 64 and unstructured inputs larger than the size families are out of scope (stated in the property)",
        ],
        &|c| check_case(c).to_result(),
        &[("inputs were explored", stats.states.load(std::sync::atomic::Ordering::Relaxed) > 1000)],
    )
}

/// run one case alone: exit 0 ok, 1 property violated (panic / wrong keys); abort => signal
pub fn run_one(tier: Tier, space: &str, index: usize) -> i32 {
    for sp in spaces(tier) {
        if sp.name == space {
            let (label, fl) = (sp.gen)(index);
            return match run_case(&fl) {
                Ok(()) => 0,
                Err(e) => {
                    println!("{label}: {e}");
                    1
                }
            };
        }
    }
    2
}

/// supervisor
pub fn run(tier: Tier, seed: u64) -> i32 {
    let exe = std::env::current_exe().expect("current exe");
    let start = Instant::now();
    let status = std::process::Command::new(&exe)
        .arg("C01-child")
        .arg(tier.name())
        .env("VERIF_SEED", seed.to_string())
        .status();
    let status = match status {
        Ok(s) => s,
        Err(e) => {
            eprintln!("MACHINERY: cannot start the child: {e}");
            return 2;
        }
    };
    if let Some(code) = status.code() {
        if code != 3 {
            return code;
        }
    }
    // the child died (signal) or reported a hang: attribute it
    eprintln!("C01: child ended abnormally ({status}); re-running the in-flight cases alone");
    let mut suspects: Vec<(String, usize)> = Vec::new();
    if let Ok(rd) = std::fs::read_dir(inflight_dir()) {
        for e in rd.flatten() {
            if let Ok(s) = std::fs::read_to_string(e.path()) {
                let line = s.lines().next().unwrap_or("").trim();
                if let Some((sp, idx)) = line.split_once('\t') {
                    if let Ok(i) = idx.trim().parse::<usize>() {
                        if !suspects.contains(&(sp.to_string(), i)) {
                            suspects.push((sp.to_string(), i));
                        }
                    }
                }
            }
        }
    }
    let all = spaces(tier);
    let mut found = Vec::new();
    // re-run every in-flight case alone, all at once (each in its own process, own limit)
    let mut running: Vec<(String, usize, u64, std::process::Child, Instant)> = Vec::new();
    for (sp, idx) in &suspects {
        let limit = all.iter().find(|s| &s.name == sp).map(|s| s.limit_s).unwrap_or(120);
        if let Ok(child) = std::process::Command::new(&exe)
            .arg("C01-one")
            .arg(tier.name())
            .arg(sp)
            .arg(idx.to_string())
            .stdout(std::process::Stdio::null())
            .spawn()
        {
            running.push((sp.clone(), *idx, limit, child, Instant::now()));
        }
    }
    while !running.is_empty() {
        let mut still = Vec::new();
        for (sp, idx, limit, mut child, t0) in running {
            let verdict = match child.try_wait() {
                Ok(Some(st)) => Some(if st.success() { None } else { Some(format!("process ended with {st} (abort / stack overflow / panic)")) }),
                Ok(None) => {
                    if t0.elapsed() > Duration::from_secs(limit) {
                        let _ = child.kill();
                        let _ = child.wait();
                        Some(Some(format!("did not return within {limit} s (hang)")))
                    } else {
                        None
                    }
                }
                Err(_) => Some(None),
            };
            match verdict {
                None => still.push((sp, idx, limit, child, t0)),
                Some(None) => {}
                Some(Some(v)) => {
                    if let Some(s) = all.iter().find(|s| s.name == sp) {
                        let (label, fl) = (s.gen)(idx);
                        found.push((sp.clone(), label, fl, v));
                    }
                }
            }
        }
        running = still;
        std::thread::sleep(Duration::from_millis(100));
    }
    let out = out_dir();
    let _ = std::fs::create_dir_all(format!("{out}/replays"));
    let mut paths = Vec::new();
    for (sp, label, fl, v) in &found {
        let case = Case {
            prop: PROP.into(),
            kind: sp.clone(),
            label: label.clone(),
            files: fl.clone(),
            expect: json!(null),
        };
        let body = json!({"property": PROP, "message": v, "case": case});
        let text = serde_json::to_string_pretty(&body).unwrap();
        let path = format!("{out}/replays/{}-{:016x}.json", PROP, fnv(&text));
        let _ = std::fs::write(&path, &text);
        println!("VIOLATION property={PROP} replay={path}");
        println!("  {label} :: {v}");
        paths.push(path);
    }
    let ev = json!({
        "property_id": PROP,
        "tier": tier.name(),
        "seed": seed,
        "level": "model_checking",
        "coverage": {
            "states": suspects.len().max(1),
            "transitions": suspects.len().max(1),
            "traces_validated_against_impl": suspects.len(),
            "evaluations": suspects.len().max(1),
            "distinct_nontrivial": suspects.len(),
            "rule": "the exploring child process died or hung; the cases in flight were re-run alone to attribute the failure",
            "exhaustive": false,
            "samples": found.iter().map(|f| json!({"space": f.0, "label": f.1, "verdict": f.3})).chain(std::iter::once(json!({"note": "abnormal end of the exploring process"}))).collect::<Vec<_>>(),
            "replay_files": paths,
        },
        "assumptions": [],
        "wall_s": start.elapsed().as_secs_f64(),
        "violations": found.len(),
    });
    let _ = std::fs::create_dir_all(format!("{out}/evidence"));
    let _ = std::fs::write(format!("{out}/evidence/{PROP}.json"), serde_json::to_string_pretty(&ev).unwrap());
    if found.is_empty() {
        eprintln!("MACHINERY: the child ended abnormally but no in-flight case reproduces the failure alone");
        2
    } else {
        1
    }
}

pub fn replay(case: &Case) -> Result<(), String> {
    check_case(case).to_result()
}
