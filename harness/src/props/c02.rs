//! C02 — well-formed documents yield a tree that mirrors the source, whatever the layout.

use super::astproj::proj_ast;
use super::docspace::c02_space;
use super::{run_files, CheckResult};
use crate::model::proj::proj_doc;
use crate::report::{finish, fnv, Case, Stats, Tier};
use serde_json::json;

pub const PROP: &str = "C02";

pub fn check_case(case: &Case) -> CheckResult {
    let mut r = CheckResult::default();
    let obs = match run_files(&case.files) {
        Ok(o) => o,
        Err(p) => {
            r.fail(format!("library panicked on a well-formed document: {p}"));
            return r;
        }
    };
    let id = &case.files[0].0;
    let (pr, vr) = (&obs.parse[id], &obs.valid[id]);
    if !pr.diagnostics.is_empty() {
        r.fail(format!(
            "well-formed document got syntax diagnostics: {:?}",
            pr.diagnostics.iter().map(super::diag_str).collect::<Vec<_>>()
        ));
    }
    let want_parse = case.expect["parse"].as_str().unwrap_or("");
    let want_valid = case.expect["valid"].as_str().unwrap_or("");
    match &pr.ast {
        None => r.fail("no tree for a well-formed document".into()),
        Some(a) => {
            let got = proj_ast(a);
            if got != want_parse {
                r.fail(format!(
                    "parse-stage tree does not mirror the document\n expected {want_parse}\n got      {got}"
                ));
            }
        }
    }
    match &vr.ast {
        None => r.fail("no tree after validation for a well-formed document".into()),
        Some(a) => {
            let got = proj_ast(a);
            if got != want_valid {
                r.fail(format!(
                    "validated tree does not mirror the document\n expected {want_valid}\n got      {got}"
                ));
            }
        }
    }
    r.outcomes.push(if r.failures.is_empty() { "mirrors".into() } else { "differs".into() });
    r
}

pub fn run(tier: Tier, seed: u64) -> i32 {
    let stats = Stats::new(PROP, tier, seed);
    let space = c02_space(tier);
    eprintln!("  C02 space: {} documents, {} document x layout cases", space.entries.len(), space.n);
    super::drive(
        &stats,
        space.n,
        1,
        |i| {
            let (e, l, rendered) = space.get(i);
            stats.nontrivial(fnv(&format!("{}|{}", proj_doc(&e.doc, false), l.name)));
            stats.outcome(&format!("family:{}", e.family));
            if i % 9973 == 0 {
                stats.sample(json!({"document": e.label, "layout": l.name, "text": rendered.text}));
            }
            Some(Case {
                prop: PROP.into(),
                kind: e.family.into(),
                label: format!("{} @ {}", e.label, l.name),
                files: vec![(if i % 16 == 15 { "@file:f" } else { "f" }.into(), rendered.text)],
                expect: json!({"parse": proj_doc(&e.doc, false), "valid": proj_doc(&e.doc, true)}),
            })
        },
        check_case,
    );
    for (f, docs, cases) in space.family_counts() {
        stats.space(json!({"family": f, "documents": docs, "document_x_layout_cases": cases}));
    }
    stats.set("documents", json!(space.entries.len()));
    let ok = stats.outcome_count("mirrors");
    finish(
        &stats,
        "finite document families (types to the stated depth in 4 positions, member sequences, argument lists, every value / annotation / header form, near-keyword names, six seed documents) x layouts (default, minimal, every uniform filler, every single-gap deviation, two-gap deviations on the seeds); the projected tree returned by the library (before and after validation) must equal the projection of the generating model; distinct_nontrivial counts distinct (document, layout) pairs",
        &[
            "document model and renderer are independent of the library; the projection ignores ranges, documentation and resolved kinds (owned by C04, C18, C05)",
            "facts taken from the grammar: enum-element and forward-declaration annotations are not stored, a repeated annotation key keeps the last value, brace values are stored as {...}",
        ],
        &|c| check_case(c).to_result(),
        &[("some document mirrors", ok > 0)],
    )
}

pub fn replay(case: &Case) -> Result<(), String> {
    check_case(case).to_result()
}
