//! Index-addressable text spaces shared by C01, C03, C04, C14 and C20:
//! E-SEQ (token-sequence trees in frames), E-EDIT (token edits of seed documents),
//! E-PFX (prefix plus one token), E-CHAR (atom strings in character frames) and the
//! keyword-in-slot table.

use crate::engine::{seq_at, seq_total};
use crate::model::doc::{emit, Tok};
use crate::model::lex::{Kind, ALL_KINDS, PRIMITIVES, RESERVED_WORDS};
use crate::model::seeds;

pub struct Space {
    pub name: String,
    pub n: usize,
    pub gen: Box<dyn Fn(usize) -> (String, String) + Sync + Send>,
    pub describe: String,
}

pub struct Frame {
    pub name: &'static str,
    pub prefix: &'static str,
    pub suffix: &'static str,
}

pub const FRAMES: [Frame; 16] = [
    Frame { name: "F0-file", prefix: "", suffix: "" },
    Frame { name: "F1-before-package", prefix: "", suffix: "package p ; interface I { }" },
    Frame { name: "F2-header", prefix: "package p ;", suffix: "interface I { }" },
    Frame { name: "F3-after-item", prefix: "package p ; interface I { }", suffix: "" },
    Frame { name: "F4-interface-body", prefix: "package p ; interface I {", suffix: "}" },
    Frame { name: "F5-parcelable-body", prefix: "package p ; parcelable P {", suffix: "}" },
    Frame { name: "F6-enum-body", prefix: "package p ; enum E {", suffix: "}" },
    Frame { name: "F7-arguments", prefix: "package p ; interface I { void f (", suffix: ") ; }" },
    Frame { name: "F8-field-type", prefix: "package p ; parcelable P {", suffix: "x ; }" },
    Frame { name: "F9-generic-arg", prefix: "package p ; parcelable P { List <", suffix: "> x ; }" },
    Frame { name: "F10-value", prefix: "package p ; interface I { const int K =", suffix: "; }" },
    Frame { name: "F11-after-params", prefix: "package p ; interface I { void f ( )", suffix: "; }" },
    Frame { name: "F12-annotation-params", prefix: "package p ; @A (", suffix: ") interface I { }" },
    Frame { name: "F13-enum-value", prefix: "package p ; enum E { A =", suffix: ", }" },
    Frame { name: "F14-map-arguments", prefix: "package p ; parcelable P { Map < String , String", suffix: "> x ; }" },
    Frame { name: "F15-list-argument", prefix: "package p ; interface I { void f ( in List < String", suffix: "> l ) ; }" },
];

fn join3(a: &str, b: &str, c: &str) -> String {
    let mut s = String::new();
    for part in [a, b, c] {
        if part.is_empty() {
            continue;
        }
        if !s.is_empty() {
            s.push(' ');
        }
        s.push_str(part);
    }
    s
}

pub fn kinds_text(kinds: &[Kind]) -> String {
    kinds
        .iter()
        .map(|k| k.lexeme())
        .collect::<Vec<_>>()
        .join(" ")
}

/// E-SEQ: all token sequences of length 0..=k over the 34 kinds in one frame.
pub fn eseq(frame_idx: usize, k: usize) -> Space {
    let f = &FRAMES[frame_idx];
    let n = seq_total(34, k);
    let (prefix, suffix, fname) = (f.prefix, f.suffix, f.name);
    Space {
        name: format!("E-SEQ/{}/k<={}", f.name, k),
        n,
        describe: format!(
            "all token sequences of length 0..={k} over the 34 token kinds substituted into frame `{} [] {}`",
            f.prefix, f.suffix
        ),
        gen: Box::new(move |i| {
            let seq = seq_at(i, 34, k);
            let kinds: Vec<Kind> = seq.iter().map(|d| ALL_KINDS[*d]).collect();
            let mid = kinds_text(&kinds);
            (
                format!("{fname}:[{mid}]"),
                join3(prefix, &mid, suffix),
            )
        }),
    }
}

pub fn seed_tokens() -> Vec<(&'static str, Vec<Tok>)> {
    seeds::all()
        .into_iter()
        .map(|(n, mut d)| (n, emit(&mut d)))
        .collect()
}

fn toks_text(toks: &[Tok]) -> String {
    toks.iter()
        .map(|t| t.text.as_str())
        .collect::<Vec<_>>()
        .join(" ")
}

#[derive(Clone, Copy, Debug)]
enum Edit {
    Insert(usize, Kind),
    Delete(usize),
    Replace(usize, Kind),
    /// swap the token with its right neighbour
    Swap(usize),
}

fn edits_for(len: usize) -> Vec<Edit> {
    let mut v = Vec::new();
    for p in 0..=len {
        for k in ALL_KINDS {
            v.push(Edit::Insert(p, k));
        }
    }
    for p in 0..len.saturating_sub(1) {
        v.push(Edit::Swap(p));
    }
    for p in 0..len {
        v.push(Edit::Delete(p));
        for k in ALL_KINDS {
            v.push(Edit::Replace(p, k));
        }
    }
    v
}

fn apply_edit(toks: &mut Vec<Tok>, e: Edit) {
    match e {
        Edit::Insert(p, k) => toks.insert(
            p.min(toks.len()),
            Tok {
                kind: k,
                text: k.lexeme().into(),
            },
        ),
        Edit::Delete(p) => {
            if p < toks.len() {
                toks.remove(p);
            }
        }
        Edit::Swap(p) => {
            if p + 1 < toks.len() {
                toks.swap(p, p + 1);
            }
        }
        Edit::Replace(p, k) => {
            if p < toks.len() {
                toks[p] = Tok {
                    kind: k,
                    text: k.lexeme().into(),
                };
            }
        }
    }
}

/// E-EDIT with one edit: every insertion / deletion / replacement over the whole vocabulary.
pub fn eedit1(seed_idx: usize) -> Space {
    let (name, toks) = seed_tokens().swap_remove(seed_idx);
    let edits = edits_for(toks.len());
    let n = edits.len();
    Space {
        name: format!("E-EDIT/{name}/d=1"),
        n,
        describe: format!(
            "every single token insertion, deletion, replacement (34 kinds) and adjacent swap applied to seed document `{name}` ({} tokens)",
            toks.len()
        ),
        gen: Box::new(move |i| {
            let mut t = toks.clone();
            apply_edit(&mut t, edits[i]);
            (format!("{name}:{:?}", edits[i]), toks_text(&t))
        }),
    }
}

/// E-EDIT with two edits (second edit applied to the result of the first).
pub fn eedit2(seed_idx: usize) -> Space {
    let (name, toks) = seed_tokens().swap_remove(seed_idx);
    let e1 = edits_for(toks.len());
    // second edit positions are computed for the longest possible intermediate result
    let e2 = edits_for(toks.len() + 1);
    let n = e1.len() * e2.len();
    let n2 = e2.len();
    Space {
        name: format!("E-EDIT/{name}/d=2"),
        n,
        describe: format!(
            "every ordered pair of token edits applied to seed document `{name}` ({} tokens)",
            toks.len()
        ),
        gen: Box::new(move |i| {
            let mut t = toks.clone();
            let a = e1[i / n2];
            let b = e2[i % n2];
            apply_edit(&mut t, a);
            apply_edit(&mut t, b);
            (format!("{name}:{a:?}+{b:?}"), toks_text(&t))
        }),
    }
}

/// E-PFX: every proper prefix of a seed followed by each kind or by end of input.
pub fn epfx(seed_idx: usize) -> Space {
    let (name, toks) = seed_tokens().swap_remove(seed_idx);
    let n = toks.len() * 35;
    Space {
        name: format!("E-PFX/{name}"),
        n,
        describe: format!(
            "every proper token prefix of seed document `{name}` ({} tokens) followed by each of the 34 kinds or by end of input",
            toks.len()
        ),
        gen: Box::new(move |i| {
            let p = i / 35;
            let k = i % 35;
            let mut t: Vec<Tok> = toks[..p].to_vec();
            let lab = if k < 34 {
                t.push(Tok {
                    kind: ALL_KINDS[k],
                    text: ALL_KINDS[k].lexeme().into(),
                });
                format!("{name}:prefix{p}+{:?}", ALL_KINDS[k])
            } else {
                format!("{name}:prefix{p}+EOF")
            };
            (lab, toks_text(&t))
        }),
    }
}

pub struct CharFrame {
    pub name: &'static str,
    pub prefix: &'static str,
    pub suffix: &'static str,
    pub atoms: &'static [&'static str],
}

pub const ATOMS_VALUE: &[&str] = &[
    "a", "1", "_", ".", "-", "+", "f", "\"", "@", "/", "*", "=", ";", " ", "\n", "\r", "\t",
    "é", "\u{a0}", "{", "}", ",",
];
pub const ATOMS_MEMBER: &[&str] = &[
    "a", "1", "_", ".", "-", "f", "\"", "@", "/", "*", "=", ";", " ", "\n", "int", "(", ")", "é",
];
pub const ATOMS_COMMENT: &[&str] = &["/*", "*/", "**/", "/**", "*", "/", "x", " ", "\n", "//", "\r"];
pub const ATOMS_C01_FILE: &[&str] = &[
    "a", "1", ".", "-", "+", "\"", "@", "/", "*", "=", ";", "{", " ", "\n", "\r", "é", "日",
    "😀", "e\u{301}", "\u{a0}", "\u{2028}", "\u{feff}",
];
pub const ATOMS_C01_DOC: &[&str] = &[
    "a", "*", "/", "@", " ", "\n", "\r", "\t", "é", "日", "😀", "e\u{301}", "\u{a0}", "\u{2028}",
    "/**", "*/", "//", "/**/",
];
pub const ATOMS_C01_CODE: &[&str] = &[
    "=", "1", "9999999999", " ", "\u{a0}", "\u{2028}", "é", "/**/", "\n", "-", "+", ".", "f", "٣",
];

pub const CHAR_FRAMES: [CharFrame; 8] = [
    CharFrame { name: "X0-value", prefix: "package p; interface I { const int K = ", suffix: "; }", atoms: ATOMS_VALUE },
    CharFrame { name: "X1-member", prefix: "package p; interface I { ", suffix: " }", atoms: ATOMS_MEMBER },
    CharFrame { name: "X2-comments", prefix: "package p; interface I { ", suffix: " void f(); }", atoms: ATOMS_COMMENT },
    CharFrame { name: "X3-file", prefix: "", suffix: "", atoms: ATOMS_C01_FILE },
    CharFrame { name: "X4-member-trivia", prefix: "package p; interface I { ", suffix: " void f(int a); }", atoms: ATOMS_C01_DOC },
    CharFrame { name: "X5-in-doc", prefix: "package p; interface I { /** ", suffix: " */ void f(); }", atoms: ATOMS_C01_DOC },
    CharFrame { name: "X6-transact-code", prefix: "package p; interface I { void f() ", suffix: "; }", atoms: ATOMS_C01_CODE },
    CharFrame { name: "X7-in-string", prefix: "package p; interface I { const String S = \"", suffix: "\"; }", atoms: ATOMS_C01_FILE },
];

/// E-CHAR: all atom strings of length 0..=n in a character frame.
pub fn echar(frame_idx: usize, n_max: usize) -> Space {
    let f = &CHAR_FRAMES[frame_idx];
    let base = f.atoms.len();
    let n = seq_total(base, n_max);
    let (prefix, suffix, fname, atoms) = (f.prefix, f.suffix, f.name, f.atoms);
    Space {
        name: format!("E-CHAR/{}/n<={}", f.name, n_max),
        n,
        describe: format!(
            "all strings of 0..={n_max} atoms over {:?} substituted into `{}[]{}`",
            f.atoms, f.prefix, f.suffix
        ),
        gen: Box::new(move |i| {
            let seq = seq_at(i, base, n_max);
            let mid: String = seq.iter().map(|d| atoms[*d]).collect();
            (
                format!("{fname}:{mid:?}"),
                format!("{prefix}{mid}{suffix}"),
            )
        }),
    }
}

/// Identifier slots: a document template with `#` where the word goes.
pub const SLOTS: [(&str, &str); 12] = [
    ("package-segment", "package a.#.b; interface I { }"),
    ("package-last", "package #; interface I { }"),
    ("import-segment", "package p; import a.#.B; interface I { }"),
    ("import-name", "package p; import a.#; interface I { }"),
    ("declaration", "package p; parcelable #; interface I { }"),
    ("item", "package p; interface # { }"),
    ("member", "package p; interface I { void #(); }"),
    ("field", "package p; parcelable P { int #; }"),
    ("argument", "package p; interface I { void f(int #); }"),
    ("enum-element", "package p; enum E { #, B }"),
    ("annotation-parameter", "package p; @A(#=1) interface I { }"),
    ("type-segment", "package p; parcelable P { a.# x; }"),
];

pub const NEAR_KEYWORDS: [&str; 14] = [
    "inout2", "int_", "Listing", "voidx", "_package", "In", "string", "trueish", "forx", "Void",
    "interfaces", "doubles", "i", "_",
];

pub fn keyword_words() -> Vec<String> {
    let mut v: Vec<String> = [
        "package", "import", "interface", "parcelable", "enum", "oneway", "const", "in", "out",
        "inout", "void", "String", "CharSequence", "List", "Map", "true", "false",
    ]
    .iter()
    .map(|s| s.to_string())
    .collect();
    for p in PRIMITIVES {
        v.push(p.to_string());
    }
    for r in RESERVED_WORDS {
        if !v.contains(&r.to_string()) {
            v.push(r.to_string());
        }
    }
    for n in NEAR_KEYWORDS {
        v.push(n.to_string());
    }
    v
}

/// Keyword table: every keyword / literal / reserved word and every near-keyword in every
/// identifier slot.
pub fn keyword_table() -> Space {
    let words = keyword_words();
    let n = words.len() * SLOTS.len();
    let nw = words.len();
    Space {
        name: "KEYWORD-TABLE".into(),
        n,
        describe: format!(
            "{} words (all keywords, literals, reserved words and {} near-keywords) in each of {} identifier slots",
            nw,
            NEAR_KEYWORDS.len(),
            SLOTS.len()
        ),
        gen: Box::new(move |i| {
            let w = &words[i % nw];
            let (sname, tpl) = SLOTS[i / nw];
            (format!("slot {sname} <- {w}"), tpl.replace('#', w))
        }),
    }
}

/// Words that are identifiers only for a Unicode-aware `\\w` / `\\d` / `[[:alpha:]]`: the grammar's names
/// are ASCII (`[a-zA-Z_][a-zA-Z0-9_]*`), so every one of these makes the document unlexable.
/// No decimal digits (Nd): the FLOAT pattern's `\\d` accepts them, a cell the statement leaves open (DESIGN 9.5).
pub const UNICODE_WORDS: [&str; 13] = [
    "Caf\u{e9}", "\u{e9}a", "a\u{e9}b", "ae\u{301}", "a\u{203f}b", "x\u{65e5}",
    "\u{65e5}x", "a\u{200d}b", "a\u{aa}b", "\u{1c5}x", "x\u{2160}", "_\u{3b1}", "a\u{ff3f}b",
];

/// Non-ASCII word characters (letters, digits, marks, connector punctuation, join controls) at
/// the start, in the middle and at the end of a name, in every identifier slot and as an
/// annotation name.
pub fn unicode_words() -> Space {
    let mut slots: Vec<(&str, &str)> = SLOTS.to_vec();
    slots.push(("annotation-name", "package p; @# interface I { }"));
    slots.push(("annotation-name-member", "package p; interface I { @# void f(); }"));
    let n = UNICODE_WORDS.len() * slots.len();
    Space {
        name: "UNICODE-WORDS".into(),
        n,
        describe: format!(
            "{} words with non-ASCII word characters (Ll, Lo, Lt, Nl, Mn, Pc, join control; first / middle / last position) in each of {} identifier and annotation-name slots",
            UNICODE_WORDS.len(),
            slots.len()
        ),
        gen: Box::new(move |i| {
            let w = UNICODE_WORDS[i % UNICODE_WORDS.len()];
            let (sname, tpl) = slots[i / UNICODE_WORDS.len()];
            (format!("slot {sname} <- {w:?}"), tpl.replace('#', w))
        }),
    }
}

/// Lexeme variants the E-SEQ representatives do not cover.
pub fn lexeme_variants() -> Space {
    let texts: Vec<(&str, String)> = vec![
        ("code-max-u32", "package p; interface I { void f() = 4294967295; }".into()),
        ("code-overflow", "package p; interface I { void f() = 4294967296; }".into()),
        ("code-huge", "package p; interface I { void f() = 99999999999999999999; void g(); }".into()),
        ("code-overflow-nospace", "package p; interface I { void f()=9999999999; }".into()),
        ("code-zero-padded", "package p; interface I { void f() = 0010; }".into()),
        ("code-float", "package p; interface I { void f() = 1.5; }".into()),
        ("code-negative", "package p; interface I { void f() = -1; }".into()),
        ("dir-out", "package p; interface I { void f(out int[] a, inout int[] b); }".into()),
        ("all-primitives", "package p; parcelable P { byte a; short b; int c; long d; float e; double f; boolean g; char h; }".into()),
        ("bool-false", "package p; parcelable P { boolean a = false; }".into()),
        ("string-with-comment-chars", "package p; parcelable P { String a = \"/* // */\"; }".into()),
        ("unterminated-string", "package p; parcelable P { String a = \"abc; }".into()),
        ("string-with-newline", "package p; parcelable P { String a = \"ab\nc\"; }".into()),
        ("unterminated-comment", "package p; parcelable P { /* int a; }".into()),
        ("comment-even-stars", "package p; parcelable P { /* a **/ int a; }".into()),
        ("comment-even-stars-garbage", "package p; parcelable P { /* a **/ garbage /* b */ int a; }".into()),
        ("comment-3", "package p; parcelable P { /***/ int a; }".into()),
        ("line-comment-eof", "package p; parcelable P { } // end".into()),
        ("bom", "\u{feff}package p; parcelable P { }".into()),
        ("empty", "".into()),
        ("only-comment", "/* c */".into()),
        ("second-item", "package p; parcelable P { } parcelable Q { }".into()),
        ("no-package", "interface I { }".into()),
        ("annotation-bare-at", "package p; @ interface I { }".into()),
        ("annotation-digit", "package p; @1A interface I { }".into()),
        ("nbsp-gap", "package\u{a0}p; interface I { }".into()),
        ("float-forms", "package p; parcelable P { float a = 1.5; float b = .5; float c = -.5f; float d = +1; float e = 1f; }".into()),
        ("float-bad", "package p; parcelable P { float a = 1.; }".into()),
        ("plus-alone", "package p; parcelable P { float a = +; }".into()),
        ("long-string-after-annotation", "package p; @A \"a very long string literal, longer than fifty characters for sure\" interface I { }".into()),
        ("long-number-at-member-start", "package p; interface I { 123456789012345678901234567890123456789012345678901234567890 void f(); }".into()),
        ("long-identifier-in-argument", "package p; interface I { void f(int a_very_long_identifier_name_that_goes_on_and_on_and_on_for_ever = 3); }".into()),
        ("long-string-in-enum", "package p; enum E { A, \"a very long string literal, longer than fifty characters for sure\", B }".into()),
        ("long-annotation-after-annotation", "package p; parcelable P { @A @B_with_a_rather_long_annotation_name_to_make_the_message_long = int x; }".into()),
        ("very-long-string-after-annotation", format!("package p; @A \"{}\" interface I {{ }}", "long ".repeat(60))),
        ("very-long-identifier-at-member-start", format!("package p; interface I {{ @A {} = 3; void f(); }}", "x".repeat(260))),
        ("very-long-string-as-argument-name", format!("package p; interface I {{ void f(int \"{}\"); }}", "s".repeat(300))),
        ("comment-ended-by-cr", "package p; parcelable P { } // end\r".into()),
        ("comment-ended-by-cr-then-code", "package p; // c\rparcelable P { }".into()),
        ("map-three-parameters", "package p; parcelable P { Map<String, String, String> m; }".into()),
        ("map-one-parameter", "package p; parcelable P { Map<String> m; }".into()),
        ("list-two-parameters", "package p; parcelable P { List<String, String> m; }".into()),
        ("nested-generic-close", "package p; parcelable P { Map<String, List<List<String>>> m; }".into()),
        ("string-ending-in-backslash-twice", "package p; parcelable P { String a = \"C:\\\"; String b = \"D:\\\"; }".into()),
        ("minus-alone", "package p; parcelable P { float a = -; }".into()),
        // identifiers spelled like the terminal names of the grammar
        ("kindname-PACKAGE", "PACKAGE a; interface I { }".into()),
        ("kindname-IMPORT", "package a; IMPORT b.C; interface I { }".into()),
        ("kindname-INTERFACE", "package a; INTERFACE I { }".into()),
        ("kindname-PARCELABLE", "package a; PARCELABLE I { }".into()),
        ("kindname-ENUM", "package a; ENUM E { A }".into()),
        ("kindname-as-names", "package PACKAGE.IMPORT; import INTERFACE.ENUM; interface IDENT { const int INTEGER = 1; FLOAT ONEWAY(in STRING DIRECTION) = 3; }".into()),
        ("kindname-values", "package p; enum E { INTEGER = INTEGER, BOOLEAN = QUOTED_STRING, RESERVED_KEYWORD }".into()),
        ("kindname-INTEGER-code", "package p; interface I { void f() = INTEGER; }".into()),
        ("kindname-VOID-return", "package p; interface I { VOID f(); LIST<MAP> g(); CONST int K = 1; }".into()),
        ("kindname-annotation", "package p; @ANNOTATION(IDENT=IDENT) interface I { }".into()),
        // keywords written with other letter case at their own slot (identifiers there)
        ("case-Package", "Package a; interface I { }".into()),
        ("case-Import", "package a; Import b.C; interface I { }".into()),
        ("case-Interface", "package a; Interface I { }".into()),
        ("case-oneway-Interface", "package a; oneway Interface I { }".into()),
        ("case-Oneway", "package a; Oneway interface I { }".into()),
        ("case-Parcelable", "package a; Parcelable I { }".into()),
        ("case-Enum", "package a; Enum E { A }".into()),
        ("case-Const", "package a; interface I { Const int K = 1; }".into()),
        ("case-Void", "package a; interface I { Void f(); VOID g(); }".into()),
        ("case-In", "package a; interface I { void f(In int a, OUT int b, InOut int c); }".into()),
        ("case-Integer-value", "package p; enum E { A = Integer, B = Float, C = True }".into()),
        ("case-Integer-code", "package p; interface I { void f() = Integer; }".into()),
        ("case-string-types", "package p; parcelable P { string a; charsequence b; list c; map d; Int e; Boolean f; }".into()),
        // non-ASCII string literals as offending tokens
        ("nonascii-string-after-annotation", "package p; @A \"Größe µ°\" interface I { }".into()),
        ("nonascii-string-as-code", "package p; interface I { int read() = \"µ°\"; void g(); }".into()),
        ("nonascii-string-in-enum", "package p; enum E { A, \"日本😀\", B }".into()),
        ("nonascii-string-as-member", "package p; parcelable P { \"é\" int x; }".into()),
        ("nonascii-string-extra", "package p; parcelable P { } \"ü\"".into()),
        ("nonascii-string-as-name", "package p; interface I { void f(int \"naïve\"); }".into()),
        // well-known annotation names with and without parameters
        ("known-annotations-enum", "package p; @Backing enum A { X }".into()),
        ("known-annotations-enum-empty", "package p; @Backing() enum A { X }".into()),
        ("known-annotations-enum-other-key", "package p; @Backing(size=\"int\") enum A { X }".into()),
        ("known-annotations-enum-type", "package p; @Backing(type=\"byte\") @VintfStability enum A { X }".into()),
        ("known-annotations-parcelable", "package p; @JavaDerive(toString=true, equals=true) @RustDerive(Clone=true) @FixedSize @JavaOnlyStableParcelable @JavaOnlyImmutable @SuppressWarnings(value={\"x\"}) parcelable A { @nullable @utf8InCpp String s; @nullable(heap=true) A next; @JavaPassthrough(annotation=\"@x.Y\") int z = 1; }".into()),
        ("known-annotations-interface", "package p; @VintfStability @SensitiveData @Descriptor(value=\"a.b.C\") @UnsupportedAppUsage @SystemApi @Hide interface A { @EnforcePermission(\"X\") void f(); @RequiresNoPermission @PropagateAllowBlocking @nullable IBinder g(@nullable in String s); @PermissionManuallyEnforced @Deprecated @Override oneway void h(); @JavaDefault void d(); }".into()),
        ("known-annotations-bare-parameters", "package p; @Backing(type) @Descriptor() @JavaDerive(toString, equals=true,) enum A { @Backing X, @Deprecated() Y = 1 }".into()),
        // brace values: separators
        ("brace-juxtaposed", "package p; parcelable P { int[] a = {1 2}; }".into()),
        ("brace-juxtaposed-after-comma", "package p; parcelable P { int[] a = {1, 2 3}; }".into()),
        ("brace-juxtaposed-nested", "package p; parcelable P { int[] a = { {1} {2} }; }".into()),
        ("brace-double-comma", "package p; parcelable P { int[] a = {1,,2}; }".into()),
        ("brace-only-comma", "package p; parcelable P { int[] a = {,}; }".into()),
        ("brace-leading-comma", "package p; parcelable P { int[] a = {,1}; }".into()),
        ("brace-trailing-comma", "package p; parcelable P { int[] a = {1,2,}; }".into()),
        ("brace-map-juxtaposed", "package p; parcelable P { int[] a = {\"a\" = 1 \"b\" = 2}; }".into()),
        ("brace-map-ok", "package p; parcelable P { int[] a = {\"a\" = 1, \"b\" = 2}; }".into()),
        ("brace-map-mixed", "package p; parcelable P { int[] a = {\"a\" = 1, 2}; }".into()),
        ("brace-juxtaposed-in-annotation", "package p; @A(x={1 2}) parcelable P { }".into()),
        ("brace-juxtaposed-in-enum", "package p; enum E { A = {1 2} }".into()),
        // many validation warnings, then a (recovered) syntax error
        ("many-warnings-then-syntax-error", format!("package p;\n{}interface I {{ void ok(); void f(in); }}", (0..40).map(|k| format!("import q.U{k};\n")).collect::<String>())),
        ("many-warnings-then-fatal-syntax-error", format!("package p;\n{}interface I {{ void ok(); ", (0..40).map(|k| format!("import q.U{k};\n")).collect::<String>())),
        ("many-recovered-errors", format!("package p; interface I {{ {} }}", "void f(in); ".repeat(40))),
        ("many-members", format!("package p; interface I {{ {} }}", (0..120).map(|k| format!("void f{k}(in int a{k}) = {k};")).collect::<String>())),
    ];
    let n = texts.len();
    Space {
        name: "LEXEME-VARIANTS".into(),
        n,
        describe: "hand-listed lexeme variants: transact codes around the u32 limit, literal forms, comment and string terminators, BOM, empty input".into(),
        gen: Box::new(move |i| (texts[i].0.to_string(), texts[i].1.clone())),
    }
}
