//! C08 — array, list and map element rules are enforced on every container type.

use super::c07::{observed_header, support_rot};
use super::semacommon::*;
use super::CheckResult;
use crate::model::doc::*;
use crate::model::gen::{leaf, wrap};
use crate::model::sema::{Loc, Rec};
use crate::report::{finish, fnv, Case, Stats, Tier};
use serde_json::json;

pub const PROP: &str = "C08";

const LEAVES: [&str; 21] = [
    "int", "void", "String", "CharSequence", "List", "Map", "IBinder", "FileDescriptor",
    "ParcelFileDescriptor", "ParcelableHolder", "Itf", "Par", "En", "Fw", "Unk", "Nope",
    "android.os.ParcelFileDescriptor",
    // a user type that is called like the synthetic name of array types
    "Array",
    // data values: unresolvable qualified names whose last segment is spelled like a built-in,
    // and a name that is a textual suffix of an imported simple name (`Itf`)
    "java.io.FileDescriptor", "com.acme.os.ParcelableHolder", "tf",
];

fn chains(depth: usize) -> Vec<Ty> {
    let mut out = Vec::new();
    for l in LEAVES {
        let mut level = vec![leaf(l)];
        for _ in 0..depth {
            let mut next = Vec::new();
            for t in &level {
                for c in 0..4 {
                    next.push(wrap(c, t.clone()));
                }
            }
            out.extend(next.iter().cloned());
            level = next;
        }
    }
    out
}

fn leaf_pair_maps() -> Vec<Ty> {
    let mut v = Vec::new();
    for k in LEAVES {
        for val in LEAVES {
            v.push(Ty::map(leaf(k), leaf(val)));
        }
    }
    v
}

fn make_case(types: &[Ty], position: usize, header_variant: usize, label: String) -> Case {
    let builtin_imports = header_variant == 1;
    let mut item = if position == 2 {
        Item::new(ItemKind::Parcelable, "Obs")
    } else {
        Item::new(ItemKind::Interface, "Obs")
    };
    for (i, t) in types.iter().enumerate() {
        let name = format!("n{i}");
        item.members.push(match position {
            0 => Member::Method(Method::new(t.clone(), &name, vec![])),
            1 => Member::Method(Method::new(Ty::void(), &name, vec![Arg::new(Some("in"), t.clone(), Some("a"))])),
            2 => Member::Field(Field::new(t.clone(), &name, None)),
            _ => Member::Const(Const::new(t.clone(), &name, Value::Scalar(Scalar::Integer("1".into())))),
        });
    }
    // every other group of types with the kinds of t.Itf / t.Par / t.En rotated
    let mut files = support_rot(header_variant == 0 && label.len() % 2 == 1);
    let mut header = observed_header(item);
    header.imports.push(Import::new("q.Array"));
    if builtin_imports {
        // the built-ins stay built-ins when the file imports them
        for i in ["android.os.ParcelableHolder", "android.os.IBinder", "android.os.ParcelFileDescriptor"] {
            header.imports.push(Import::new(i));
        }
    }
    if header_variant == 2 {
        // project items / forward declarations named like built-ins take precedence over them
        header.imports.push(Import::new("lib.IBinder"));
        header.imports.push(Import::new("lib.ParcelFileDescriptor"));
        header.decls.push(Decl::new("ParcelableHolder"));
        files.push(ProjFile::from_doc("lib-ibinder", Document::new("lib", Item::new(ItemKind::Interface, "IBinder"))));
        files.push(ProjFile::from_doc("lib-pfd", Document::new("lib", Item::new(ItemKind::Enum, "ParcelFileDescriptor"))));
    }
    files.push(ProjFile::from_doc_styled("obs", header, types.len() % 2 == 1 || label.contains("..40 ") || label.contains("80..")));
    let oi = files.len() - 1;
    let exp = expect_observed(&files, oi);
    let doc = files[oi].doc.as_ref().unwrap();
    let r = files[oi].rendered.as_ref().unwrap();
    // regions: the extent of every top-level type
    let mut regions = Vec::new();
    let mut add = |t: &Ty| regions.push(Loc::within(r.start(t.full.first), r.end(t.full.last)));
    for m in &doc.item.members {
        match m {
            Member::Method(mm) => {
                add(&mm.ret);
                for a in &mm.args {
                    add(&a.ty);
                }
            }
            Member::Const(c) => add(&c.ty),
            Member::Field(f) => add(&f.ty),
        }
    }
    let recs: Vec<Rec> = exp
        .recs
        .iter()
        .filter(|x| regions.iter().any(|g| g.admits(x.anchor.lo, x.anchor.hi)))
        .cloned()
        .collect();
    let expect = expect_json(&exp, &recs, &regions, "obs");
    Case {
        prop: PROP.into(),
        kind: ["return", "argument", "field", "constant"][position].into(),
        label,
        files: files.iter().map(|f| (f.id.clone(), f.text.clone())).collect(),
        expect,
    }
}

pub fn check_case(case: &Case) -> CheckResult {
    let mut r = check_region_case(case, false, false);
    if let Some(recs) = case.expect["recs"].as_array() {
        for x in recs {
            r.outcomes.push(format!("class:{}", x["class"].as_str().unwrap_or("")));
        }
    }
    r
}

pub fn run(tier: Tier, seed: u64) -> i32 {
    let stats = Stats::new(PROP, tier, seed);
    let depth = tier.pick(4, 5);
    let mut types = chains(depth);
    types.extend(leaf_pair_maps());
    // size dimension: single chains of depth 6..=24 (alternating constructors) over a few leaves
    for l in ["int", "String", "Itf", "List", "Nope"] {
        for d in [6usize, 7, 8, 9, 10, 12, 15, 16, 17, 20, 24] {
            for phase in 0..4 {
                let mut t = leaf(l);
                for k in 0..d {
                    t = wrap((k + phase) % 4, t);
                }
                types.push(t);
            }
        }
    }
    let per = 40;
    let nf = (types.len() + per - 1) / per;
    super::drive(
        &stats,
        nf * 4 * 3,
        1,
        |i| {
            let bi = i % 3;
            let i = i / 3;
            let pos = i % 4;
            let f = i / 4;
            let chunk = &types[f * per..((f + 1) * per).min(types.len())];
            for t in chunk {
                stats.nontrivial(fnv(&format!("{}@{pos}", t.text())));
            }
            let c = make_case(chunk, pos, bi, format!("packed types {}..{} position {} header variant {bi}", f * per, f * per + chunk.len(), pos));
            if i % 211 == 0 {
                stats.sample(json!({"label": c.label, "types": chunk.iter().take(6).map(|t| t.text()).collect::<Vec<_>>()}));
            }
            Some(c)
        },
        check_case,
    );
    stats.space(json!({"space": "packed", "container_types": types.len(), "depth": depth, "leaf_categories": LEAVES, "positions": 4, "types_per_file": per}));
    // unpacked at the next smaller bound
    let small = chains(depth - 1);
    let nsmall = small.len();
    super::drive(
        &stats,
        nsmall * 4,
        1,
        |i| {
            let pos = i % 4;
            let t = &small[(i / 4) * small.len() / nsmall];
            stats.nontrivial(fnv(&format!("{}@{pos}u", t.text())));
            Some(make_case(std::slice::from_ref(t), pos, (i / 4) % 3, format!("unpacked `{}` position {pos}", t.text())))
        },
        check_case,
    );
    stats.space(json!({"space": "unpacked", "container_types": nsmall, "positions": 4}));
    let classes = ["multi-dim-array", "bad-array-element", "bad-list-element", "bad-map-key", "bad-map-value", "raw-list", "raw-map"];
    let all = classes.iter().all(|c| stats.outcome_count(&format!("class:{c}")) > 0);
    finish(
        &stats,
        "every container built by chains over {T[], List<T>, Map<String,T>, Map<T,String>} up to the stated depth over 21 leaf categories (reached through real resolution; one is a user type called `Array`), plus all Map<k,v> over leaf pairs and single chains of depth 6-24, each in return / argument / field / constant position, with three headers (plain; importing the built-ins it uses; importing project items / declaring a parcelable named like built-ins); inside the extent of every type the diagnostics are compared with the statement's element tables applied to every container node; distinct_nontrivial counts distinct (type, position) pairs",
        &[
            "element tables transcribed from the statement; an unresolved name as map key is left open (statement contradictory)",
            "the comparison covers every validation diagnostic located inside a type's extent (unknown-type Errors and missing-direction Errors included, from the same reference)",
        ],
        &|c| check_case(c).to_result(),
        &[("every container rule fires", all)],
    )
}

pub fn replay(case: &Case) -> Result<(), String> {
    check_case(case).to_result()
}
