//! C09 — duplicate method names, duplicate and mixed transact codes are flagged precisely.

use super::semacommon::*;
use super::CheckResult;
use crate::engine::{seq_at, seq_total};
use crate::model::doc::*;
use crate::model::sema::{Loc, Rec};
use crate::report::{finish, fnv, Case, Stats, Tier};
use serde_json::json;

pub const PROP: &str = "C09";

const NAMES: [&str; 3] = ["a", "b", "c"];
/// `010` and `10` collide by value, `8` would collide with `010` read as octal
const CODES: [Option<&str>; 4] = [None, Some("8"), Some("010"), Some("10")];

/// second alphabet (data values): names that differ in case, by an underscore, by a digit, by a
/// prefix or a repetition, a 100-character name; codes 0 / 00, 1 / 01 (equal by value), the
/// largest three-byte code, the 31-bit and 32-bit limits
const NAMES2: [&str; 9] = [
    "get", "Get", "GET", "get_", "_get", "get1", "ge", "getget",
    "a_method_name_that_is_one_hundred_characters_long_0123456789_0123456789_0123456789_0123456789_0123456",
];
const CODES2: [Option<&str>; 10] = [
    None, Some("0"), Some("00"), Some("1"), Some("01"), Some("16777215"), Some("2147483647"), Some("2147483648"),
    Some("4294967295"), Some("0000000001"),
];

/// a method named like a keyword of another language, involved in every C09 situation at once:
/// `w() = 1; other() = 1; w(); W()` (repeated code, repeated name, mixing, a case variant)
fn word_case(w: &str, shape: usize) -> Case {
    let mut item = Item::new(ItemKind::Interface, "I");
    let mk = |name: &str, code: Option<&str>| {
        let mut m = Method::new(Ty::void(), name, vec![]);
        m.code = code.map(|c| c.to_string());
        Member::Method(m)
    };
    let upper = w.to_ascii_uppercase();
    let other = if upper == w { w.to_ascii_lowercase() } else { upper };
    // the case variant must still be a plain identifier (`VOID` -> `void` is not)
    let other = if crate::model::lex::keyword_kind(&other).is_some() || crate::model::lex::is_forbidden_name(&other) {
        format!("{w}_")
    } else {
        other
    };
    match shape {
        0 => {
            item.members.push(mk(w, Some("1")));
            item.members.push(mk("other", Some("1")));
            item.members.push(mk(w, None));
            item.members.push(mk(&other, Some("2")));
        }
        1 => {
            item.members.push(mk("first", None));
            item.members.push(mk(w, Some("3")));
            item.members.push(mk(&other, Some("3")));
        }
        _ => {
            item.members.push(mk(w, None));
            item.members.push(mk(&format!("{w}2"), None));
            item.members.push(mk(w, None));
        }
    }
    let files = vec![companion(), ProjFile::from_doc_styled("obs", Document::new("p", item), false)];
    let exp = expect_observed(&files, 1);
    let doc = files[1].doc.as_ref().unwrap();
    let r = files[1].rendered.as_ref().unwrap();
    let regions = vec![Loc::within(r.start(doc.item.lbrace_tok), r.end(doc.item.span.last))];
    let recs: Vec<Rec> = exp.recs.clone();
    Case {
        prop: PROP.into(),
        kind: "foreign-word".into(),
        label: format!("methods named `{w}`, shape {shape}"),
        files: files.iter().map(|f| (f.id.clone(), f.text.clone())).collect(),
        expect: expect_json(&exp, &recs, &regions, "obs"),
    }
}

fn make_case2(seq: &[usize]) -> Case {
    let mut item = Item::new(ItemKind::Interface, "I");
    for s in seq {
        let mut m = Method::new(Ty::void(), NAMES2[s / CODES2.len()], vec![]);
        m.code = CODES2[s % CODES2.len()].map(|c| c.to_string());
        item.members.push(Member::Method(m));
    }
    let files = vec![companion(), ProjFile::from_doc_styled("obs", Document::new("p", item), false)];
    let exp = expect_observed(&files, 1);
    let doc = files[1].doc.as_ref().unwrap();
    let r = files[1].rendered.as_ref().unwrap();
    let regions = vec![Loc::within(r.start(doc.item.lbrace_tok), r.end(doc.item.span.last))];
    let recs: Vec<Rec> = exp.recs.clone();
    Case {
        prop: PROP.into(),
        kind: format!("values-len{}", seq.len()),
        label: format!(
            "members [{}]",
            seq.iter()
                .map(|s| format!("{}{}", NAMES2[s / CODES2.len()], CODES2[s % CODES2.len()].map(|c| format!("={c}")).unwrap_or_default()))
                .collect::<Vec<_>>()
                .join(", ")
        ),
        files: files.iter().map(|f| (f.id.clone(), f.text.clone())).collect(),
        expect: expect_json(&exp, &recs, &regions, "obs"),
    }
}

/// alphabet: 12 methods + 1 constant + 1 constant named like a method
fn member(sym: usize, idx: usize) -> Member {
    if sym == 13 {
        return Member::Const(Const::new(
            Ty::prim("int"),
            "a",
            Value::Scalar(Scalar::Integer("8".into())),
        ));
    }
    if sym == 12 {
        return Member::Const(Const::new(
            Ty::prim("int"),
            &format!("K{idx}"),
            Value::Scalar(Scalar::Integer("10".into())),
        ));
    }
    let mut m = Method::new(Ty::void(), NAMES[sym / 4], vec![]);
    m.code = CODES[sym % 4].map(|s| s.to_string());
    Member::Method(m)
}

/// A second interface in the same parser that is in every C09 situation itself (repeated names,
/// repeated codes, mixing): what a pass remembers from it must not reach the observed interface.
fn companion() -> ProjFile {
    ProjFile::raw(
        "companion",
        "package q;\ninterface Companion {\n  void a() = 8;\n  void b();\n  void a();\n  void c() = 8;\n  void get() = 10;\n  void m0() = 1;\n}\n",
    )
}

fn make_case(seq: &[usize]) -> Case {
    let mut item = Item::new(ItemKind::Interface, "I");
    for (i, s) in seq.iter().enumerate() {
        item.members.push(member(*s, i));
    }
    // every third sequence in the commented layout
    let commented = seq.iter().sum::<usize>() % 3 == 2;
    let files = vec![companion(), ProjFile::from_doc_styled("obs", Document::new("p", item), commented)];
    let exp = expect_observed(&files, 1);
    let doc = files[1].doc.as_ref().unwrap();
    let r = files[1].rendered.as_ref().unwrap();
    let regions = vec![Loc::within(r.start(doc.item.lbrace_tok), r.end(doc.item.span.last))];
    let recs: Vec<Rec> = exp.recs.clone();
    let expect = expect_json(&exp, &recs, &regions, "obs");
    Case {
        prop: PROP.into(),
        kind: format!("len{}", seq.len()),
        label: format!(
            "members [{}]",
            seq.iter()
                .map(|s| if *s == 12 {
                    "const".to_string()
                } else if *s == 13 {
                    "const a".to_string()
                } else {
                    format!("{}{}", NAMES[s / 4], CODES[s % 4].map(|c| format!("={c}")).unwrap_or_default())
                })
                .collect::<Vec<_>>()
                .join(", ")
        ),
        files: files.iter().map(|f| (f.id.clone(), f.text.clone())).collect(),
        expect,
    }
}

/// size dimension: long interfaces (9..=40 methods) with shuffled codes, repeats far apart,
/// late mixing and late name repeats
fn long_case(n: usize, shape: usize) -> Case {
    let mut item = Item::new(ItemKind::Interface, "I");
    for i in 0..n {
        let mut m = Method::new(Ty::void(), &format!("m{i}"), vec![]);
        // codes in a non-monotonic order: descending, or a stride permutation
        let code = match shape % 3 {
            0 => (n - i) * 3,
            1 => (i * 7) % (n + 3) + 1,
            _ => i + 1,
        };
        m.code = Some(code.to_string());
        item.members.push(Member::Method(m));
    }
    let setm = |item: &mut Item, i: usize, f: &dyn Fn(&mut Method)| {
        if let Some(Member::Method(m)) = item.members.get_mut(i) {
            f(m)
        }
    };
    match shape / 3 {
        // the last method repeats the first code
        0 => {
            let c = if let Member::Method(m) = &item.members[0] { m.code.clone() } else { None };
            setm(&mut item, n - 1, &|m| m.code = c.clone());
        }
        // the last method repeats the code of the middle one, the one before repeats the first name
        1 => {
            let c = if let Member::Method(m) = &item.members[n / 2] { m.code.clone() } else { None };
            setm(&mut item, n - 1, &|m| m.code = c.clone());
            setm(&mut item, n - 2, &|m| m.name = "m0".into());
        }
        // the last method has no code (late mixing)
        2 => setm(&mut item, n - 1, &|m| m.code = None),
        // no code anywhere except on the last method
        _ => {
            for i in 0..n - 1 {
                setm(&mut item, i, &|m| m.code = None);
            }
        }
    }
    let files = vec![companion(), ProjFile::from_doc_styled("obs", Document::new("p", item), shape % 2 == 1)];
    let exp = expect_observed(&files, 1);
    let doc = files[1].doc.as_ref().unwrap();
    let r = files[1].rendered.as_ref().unwrap();
    let regions = vec![Loc::within(r.start(doc.item.lbrace_tok), r.end(doc.item.span.last))];
    let recs: Vec<Rec> = exp.recs.clone();
    Case {
        prop: PROP.into(),
        kind: "long".into(),
        label: format!("{n} methods, shape {shape}"),
        files: files.iter().map(|f| (f.id.clone(), f.text.clone())).collect(),
        expect: expect_json(&exp, &recs, &regions, "obs"),
    }
}

pub fn check_case(case: &Case) -> CheckResult {
    let mut r = check_region_case(case, false, false);
    let mut sig: Vec<String> = Vec::new();
    if let Some(recs) = case.expect["recs"].as_array() {
        for x in recs {
            sig.push(x["class"].as_str().unwrap_or("").to_string());
        }
    }
    sig.sort();
    sig.dedup();
    if sig.is_empty() {
        r.outcomes.push("clean".into());
    }
    for s in sig {
        r.outcomes.push(format!("class:{s}"));
    }
    if case.expect["recs"].as_array().map(|a| a.iter().any(|x| x["optional"].as_bool() == Some(true))).unwrap_or(false) {
        r.outcomes.push("mixed-rule-left-open (repeated names change the verdict)".into());
    }
    r
}

pub fn run(tier: Tier, seed: u64) -> i32 {
    let stats = Stats::new(PROP, tier, seed);
    let l = tier.pick(4, 5);
    let n = seq_total(14, l);
    super::drive(
        &stats,
        n,
        1,
        |i| {
            let seq = seq_at(i, 14, l);
            stats.nontrivial(fnv(&format!("{seq:?}")));
            let c = make_case(&seq);
            if i % 2999 == 0 {
                stats.sample(json!({"label": c.label, "text": c.files.last().unwrap().1}));
            }
            Some(c)
        },
        check_case,
    );
    stats.space(json!({"space": "member sequences", "alphabet": "3 names x {no code, 8, 010, 10} + 1 constant + 1 constant named like a method", "max_length": l, "sequences": n}));
    // data values: every sequence of <= 2 (thorough 3) methods over 9 names x 10 codes
    {
        let n2 = NAMES2.len() * CODES2.len();
        let k2 = if tier == Tier::Quick { 2 } else { 3 };
        let total = seq_total(n2, k2);
        super::drive(
            &stats,
            total,
            1,
            |i| {
                let seq = seq_at(i, n2, k2);
                if seq.is_empty() {
                    return None;
                }
                let c = make_case2(&seq);
                stats.nontrivial(fnv(&c.files.last().unwrap().1));
                Some(c)
            },
            check_case,
        );
        stats.space(json!({"space": "data values", "names": NAMES2, "codes": CODES2, "sequences_up_to": k2, "cases": total}));
    }
    {
        let words: Vec<&str> = crate::model::gen::FOREIGN_WORDS.iter().chain(crate::model::gen::NEAR_KEYWORD_NAMES.iter()).copied().collect();
        super::drive(
            &stats,
            words.len() * 3,
            1,
            |i| {
                let c = word_case(words[i / 3], i % 3);
                stats.nontrivial(fnv(&c.files.last().unwrap().1));
                Some(c)
            },
            check_case,
        );
        stats.space(json!({"space": "methods named like foreign keywords / near-keywords", "words": words.len(), "shapes": 3}));
    }
    let sizes = [9usize, 10, 11, 12, 16, 17, 24, 33, 40];
    super::drive(
        &stats,
        sizes.len() * 12,
        1,
        |i| {
            let c = long_case(sizes[i / 12], i % 12);
            stats.nontrivial(fnv(&c.files.last().unwrap().1));
            Some(c)
        },
        check_case,
    );
    stats.space(json!({"space": "long interfaces", "sizes": sizes, "shapes": 12}));
    let classes = ["duplicate-method-name", "duplicate-transact-code", "mixed-transact-codes"];
    let all = classes.iter().all(|c| stats.outcome_count(&format!("class:{c}")) > 0) && stats.outcome_count("clean") > 0;
    finish(
        &stats,
        "every member sequence up to the stated length over 12 methods (3 names x {no code, 8, 010, 10}), a constant and a constant named like a method; all validation diagnostics inside the interface body (Errors with their related ranges) are compared with a reference single pass transcribed from the statement; distinct_nontrivial counts distinct sequences",
        &[
            "name-repeat and code-repeat Errors are located exactly (name / code range, related = first holder); the 'mixed' Error anywhere inside the designated method",
            "the 'mixed' rule is read as the sentence scopes it: among methods with distinct names (first occurrences)",
        ],
        &|c| check_case(c).to_result(),
        &[("every rule fires and clean interfaces occur", all)],
    )
}

pub fn replay(case: &Case) -> Result<(), String> {
    check_case(case).to_result()
}
