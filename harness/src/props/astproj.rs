//! Projection of the library's tree into the canonical form of model::proj, and collection /
//! checking of the ranges it carries.

use aidl_parser::ast;
use unicode_segmentation::UnicodeSegmentation;

pub fn proj_annots(annots: &[ast::Annotation]) -> String {
    let mut out = Vec::new();
    for a in annots {
        let mut kv: Vec<(String, Option<String>)> = a
            .key_values
            .iter()
            .map(|(k, v)| (k.clone(), v.clone()))
            .collect();
        kv.sort();
        let body: Vec<String> = kv
            .iter()
            .map(|(k, v)| match v {
                Some(v) => format!("{k}={v}"),
                None => k.clone(),
            })
            .collect();
        out.push(format!("{}{{{}}}", a.name, body.join(",")));
    }
    format!("[{}]", out.join(" "))
}

pub fn proj_type(t: &ast::Type) -> String {
    let kind = match &t.kind {
        ast::TypeKind::Void => "Void",
        ast::TypeKind::Primitive => "Primitive",
        ast::TypeKind::String => "String",
        ast::TypeKind::CharSequence => "CharSequence",
        ast::TypeKind::Array => "Array",
        ast::TypeKind::List => "List",
        ast::TypeKind::Map => "Map",
        // resolved kinds are C05's business
        ast::TypeKind::AndroidType(_)
        | ast::TypeKind::ResolvedItem(..)
        | ast::TypeKind::Unresolved => "Custom",
    };
    let ch: Vec<String> = t.generic_types.iter().map(proj_type).collect();
    format!("T({}|{}|{})", t.name, kind, ch.join(","))
}

fn proj_const(c: &ast::Const) -> String {
    format!(
        "(const name={} type={} value={} annots={})",
        c.name,
        proj_type(&c.const_type),
        c.value,
        proj_annots(&c.annotations)
    )
}

pub fn proj_method(m: &ast::Method) -> String {
    let args: Vec<String> = m
        .args
        .iter()
        .map(|a| {
            let d = a.direction.to_string();
            format!(
                "(arg dir={} name={} annots={} type={})",
                if d.is_empty() { "-" } else { &d },
                a.name.as_deref().unwrap_or("-"),
                proj_annots(&a.annotations),
                proj_type(&a.arg_type)
            )
        })
        .collect();
    format!(
        "(method oneway={} name={} ret={} code={} annots={} args=[{}])",
        m.oneway,
        m.name,
        proj_type(&m.return_type),
        m.transact_code
            .map(|c| c.to_string())
            .unwrap_or("-".into()),
        proj_annots(&m.annotations),
        args.join(" ")
    )
}

pub fn proj_field(f: &ast::Field) -> String {
    format!(
        "(field name={} type={} value={} annots={})",
        f.name,
        proj_type(&f.field_type),
        f.value.clone().unwrap_or("-".into()),
        proj_annots(&f.annotations)
    )
}

pub fn proj_interface_element(e: &ast::InterfaceElement) -> String {
    match e {
        ast::InterfaceElement::Method(m) => proj_method(m),
        ast::InterfaceElement::Const(c) => proj_const(c),
    }
}

pub fn proj_parcelable_element(e: &ast::ParcelableElement) -> String {
    match e {
        ast::ParcelableElement::Field(f) => proj_field(f),
        ast::ParcelableElement::Const(c) => proj_const(c),
    }
}

pub fn proj_enum_element(e: &ast::EnumElement) -> String {
    format!(
        "(elem name={} value={})",
        e.name,
        e.value.clone().unwrap_or("-".into())
    )
}

pub fn proj_ast(a: &ast::Aidl) -> String {
    let mut s = format!("(aidl pkg={}", a.package.name);
    for i in &a.imports {
        s.push_str(&format!(" (import path={} name={})", i.path, i.name));
    }
    for d in &a.declared_parcelables {
        s.push_str(&format!(" (decl path={} name={})", d.path, d.name));
    }
    match &a.item {
        ast::Item::Interface(i) => {
            s.push_str(&format!(
                " (interface oneway={} name={} annots={}",
                i.oneway,
                i.name,
                proj_annots(&i.annotations)
            ));
            for e in &i.elements {
                s.push(' ');
                s.push_str(&proj_interface_element(e));
            }
            s.push(')');
        }
        ast::Item::Parcelable(p) => {
            s.push_str(&format!(
                " (parcelable name={} annots={}",
                p.name,
                proj_annots(&p.annotations)
            ));
            for e in &p.elements {
                s.push(' ');
                s.push_str(&proj_parcelable_element(e));
            }
            s.push(')');
        }
        ast::Item::Enum(e) => {
            s.push_str(&format!(
                " (enum name={} annots={}",
                e.name,
                proj_annots(&e.annotations)
            ));
            for el in &e.elements {
                s.push(' ');
                s.push_str(&proj_enum_element(el));
            }
            s.push(')');
        }
    }
    s.push(')');
    s
}

/// Expected (line, column) of a byte offset: line = 1 + number of '\n' before it, column =
/// 1 + grapheme clusters between the line start and the offset.
pub fn line_col_of(text: &str, off: usize) -> (usize, usize) {
    let before = &text[..off];
    let line = 1 + before.matches('\n').count();
    let ls = before.rfind('\n').map(|p| p + 1).unwrap_or(0);
    let col = 1 + text[ls..off].graphemes(true).count();
    (line, col)
}

/// Well-formedness of one reported position against the source text.
pub fn check_position(text: &str, p: &ast::Position, what: &str, errs: &mut Vec<String>) -> bool {
    if p.offset > text.len() {
        errs.push(format!("{what}: offset {} beyond the end of the file ({})", p.offset, text.len()));
        return false;
    }
    if !text.is_char_boundary(p.offset) {
        errs.push(format!("{what}: offset {} is not on a character boundary", p.offset));
        return false;
    }
    let want = line_col_of(text, p.offset);
    if want != p.line_col {
        errs.push(format!(
            "{what}: offset {} is at line/column {:?} but {:?} is reported",
            p.offset, want, p.line_col
        ));
        return false;
    }
    true
}

pub fn check_range(text: &str, r: &ast::Range, what: &str, errs: &mut Vec<String>) -> bool {
    let a = check_position(text, &r.start, &format!("{what}.start"), errs);
    let b = check_position(text, &r.end, &format!("{what}.end"), errs);
    if a && b && r.start.offset > r.end.offset {
        errs.push(format!(
            "{what}: inverted range {}..{}",
            r.start.offset, r.end.offset
        ));
        return false;
    }
    a && b
}

/// All ranges carried by a tree, with a description.
pub fn all_ranges(a: &ast::Aidl) -> Vec<(String, ast::Range)> {
    let mut v: Vec<(String, ast::Range)> = Vec::new();
    fn ty(v: &mut Vec<(String, ast::Range)>, t: &ast::Type, path: &str) {
        v.push((format!("{path}.symbol"), t.symbol_range.clone()));
        v.push((format!("{path}.full"), t.full_range.clone()));
        for (i, g) in t.generic_types.iter().enumerate() {
            ty(v, g, &format!("{path}.g{i}"));
        }
    }
    fn cst(v: &mut Vec<(String, ast::Range)>, c: &ast::Const, p: &str) {
        v.push((format!("{p}.symbol"), c.symbol_range.clone()));
        v.push((format!("{p}.full"), c.full_range.clone()));
        ty(v, &c.const_type, &format!("{p}.type"));
    }
    v.push(("package.symbol".into(), a.package.symbol_range.clone()));
    v.push(("package.full".into(), a.package.full_range.clone()));
    for (i, im) in a.imports.iter().enumerate() {
        v.push((format!("import{i}.symbol"), im.symbol_range.clone()));
        v.push((format!("import{i}.full"), im.full_range.clone()));
    }
    for (i, im) in a.declared_parcelables.iter().enumerate() {
        v.push((format!("decl{i}.symbol"), im.symbol_range.clone()));
        v.push((format!("decl{i}.full"), im.full_range.clone()));
    }
    v.push(("item.symbol".into(), a.item.get_symbol_range().clone()));
    v.push(("item.full".into(), a.item.get_full_range().clone()));
    match &a.item {
        ast::Item::Interface(it) => {
            for (i, e) in it.elements.iter().enumerate() {
                let p = format!("m{i}");
                match e {
                    ast::InterfaceElement::Method(m) => {
                        v.push((format!("{p}.symbol"), m.symbol_range.clone()));
                        v.push((format!("{p}.full"), m.full_range.clone()));
                        v.push((format!("{p}.transact_code"), m.transact_code_range.clone()));
                        v.push((format!("{p}.oneway"), m.oneway_range.clone()));
                        ty(&mut v, &m.return_type, &format!("{p}.ret"));
                        for (j, arg) in m.args.iter().enumerate() {
                            let ap = format!("{p}.a{j}");
                            v.push((format!("{ap}.symbol"), arg.symbol_range.clone()));
                            v.push((format!("{ap}.full"), arg.full_range.clone()));
                            match &arg.direction {
                                ast::Direction::In(r)
                                | ast::Direction::Out(r)
                                | ast::Direction::InOut(r) => {
                                    v.push((format!("{ap}.direction"), r.clone()))
                                }
                                ast::Direction::Unspecified => {}
                            }
                            ty(&mut v, &arg.arg_type, &format!("{ap}.type"));
                        }
                    }
                    ast::InterfaceElement::Const(c) => cst(&mut v, c, &p),
                }
            }
        }
        ast::Item::Parcelable(it) => {
            for (i, e) in it.elements.iter().enumerate() {
                let p = format!("m{i}");
                match e {
                    ast::ParcelableElement::Field(f) => {
                        v.push((format!("{p}.symbol"), f.symbol_range.clone()));
                        v.push((format!("{p}.full"), f.full_range.clone()));
                        ty(&mut v, &f.field_type, &format!("{p}.type"));
                    }
                    ast::ParcelableElement::Const(c) => cst(&mut v, c, &p),
                }
            }
        }
        ast::Item::Enum(it) => {
            for (i, e) in it.elements.iter().enumerate() {
                v.push((format!("e{i}.symbol"), e.symbol_range.clone()));
                v.push((format!("e{i}.full"), e.full_range.clone()));
            }
        }
    }
    v
}
