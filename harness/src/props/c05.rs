//! C05 — every user-type reference is resolved per AIDL scoping, or reported unknown.

use super::semacommon::*;
use super::CheckResult;
use crate::model::doc::*;
use crate::model::gen::leaf;
use crate::model::sema::{Loc, Rec, Res};
use crate::report::{finish, fnv, Case, Stats, Tier};
use serde_json::json;

pub const PROP: &str = "C05";

const IMPORTS: [&str; 8] = [
    "a.b.Foo",
    "c.Foo",
    "a.b.XFoo",
    "x.a.b.Foo",
    "android.os.IBinder",
    "android.os.ParcelFileDescriptor",
    "android.os.ParcelableHolder",
    "my.IBinder",
];
const DECLS: [&str; 3] = ["Foo", "Bar", "a.b.Foo"];
const NAMES: [&str; 15] = [
    "Foo", "XFoo", "Fo", "b.Foo", "a.b.Foo", "x.a.b.Foo", "c.Foo", "Bar", "IBinder", "FileDescriptor",
    "ParcelFileDescriptor", "ParcelableHolder", "android.os.ParcelFileDescriptor", "android.os.IBinder",
    "other.b.Foo",
];

/// second alphabet (data values): underscores, digits, letter case, names ending in List / Map /
/// Set, names of Java boxes, one-character names
const IMPORTS_B: [&str; 10] = [
    "m.Device_Info", "m.TaskList", "m.KeyMap", "m.ResultSet", "m.foo", "m.Foo2", "m.URI", "m._Under", "m.A", "n.m.Void",
];
const DECLS_B: [&str; 3] = ["Uri", "Info", "StringList"];
const NAMES_B: [&str; 36] = [
    "Info", "Device_Info", "_Info", "TaskList", "List2", "KeyMap", "Map_", "ResultSet", "Set", "foo", "Foo", "FOO",
    "Foo2", "Foo_2", "URI", "Uri", "uri", "_Under", "Under", "A", "a", "m.A", "M.A", "StringList", "Strings", "Void",
    "VOID", "Int", "Boolean", "Object", "string", "list", "m.Void", "Task", "m.TaskList", "m.foo",
];

fn alpha(a: usize) -> (&'static [&'static str], &'static [&'static str], &'static [&'static str]) {
    if a == 0 {
        (&IMPORTS, &DECLS, &NAMES)
    } else {
        (&IMPORTS_B, &DECLS_B, &NAMES_B)
    }
}

fn contexts(t: Ty) -> Vec<Ty> {
    vec![
        t.clone(),
        Ty::array(t.clone()),
        Ty::list(t.clone()),
        Ty::map(Ty::string(), Ty::list(t.clone())),
        Ty::map(Ty::string(), Ty::list(Ty::array(t))),
    ]
}

/// all subsets of size <= 3 of the 8 imports
fn import_sets() -> Vec<Vec<usize>> {
    let mut v = vec![vec![]];
    for a in 0..8 {
        v.push(vec![a]);
        for b in (a + 1)..8 {
            v.push(vec![a, b]);
            for c in (b + 1)..8 {
                v.push(vec![a, b, c]);
            }
        }
    }
    v
}

pub struct Config {
    /// 0: the main alphabet, 1: the data-value alphabet
    alpha: usize,
    imports: Vec<usize>,
    decls: usize,    // bitmask over DECLS
    foo_kind: usize, // 0 absent 1 interface 2 parcelable 3 enum
    cfoo: bool,
    xfoo: bool,
}

/// A neighbour file that uses every feature of the header (imports of the same simple names,
/// forward declarations, resolved and unresolved references): whatever a pass remembers from it
/// must not reach the observed file when the neighbour happens to be processed first.
fn neighbour() -> ProjFile {
    let mut item = Item::new(ItemKind::Interface, "Neighbour");
    item.members.push(Member::Method(Method::new(
        leaf("Foo"),
        "n",
        vec![
            Arg::new(Some("in"), leaf("XFoo"), Some("a")),
            Arg::new(Some("in"), leaf("Bar"), Some("b")),
            Arg::new(Some("in"), leaf("IBinder"), Some("c")),
            Arg::new(Some("in"), leaf("Info"), Some("d")),
            Arg::new(Some("in"), leaf("Uri"), Some("e")),
        ],
    )));
    let mut d = Document::new("nb", item);
    for i in ["zz.Foo", "zz.XFoo", "zz.IBinder", "zz.Info", "zz.TaskList", "zz.A"] {
        d.imports.push(Import::new(i));
    }
    for n in ["Bar", "Uri", "StringList"] {
        d.decls.push(Decl::new(n));
    }
    ProjFile::from_doc("neighbour", d)
}

fn support_files(c: &Config) -> Vec<ProjFile> {
    let mut v = vec![neighbour()];
    if c.alpha == 1 {
        // every import of the alphabet is an item of the project (kinds rotate), or none is
        if c.foo_kind > 0 {
            for (i, imp) in IMPORTS_B.iter().enumerate() {
                let (pkg, name) = imp.rsplit_once('.').unwrap();
                let kind = [ItemKind::Interface, ItemKind::Parcelable, ItemKind::Enum][(i + c.foo_kind) % 3];
                v.push(ProjFile::from_doc(&format!("s{i}"), Document::new(pkg, Item::new(kind, name))));
            }
        }
        return v;
    }
    if c.foo_kind > 0 {
        let kind = [ItemKind::Interface, ItemKind::Parcelable, ItemKind::Enum][c.foo_kind - 1];
        v.push(ProjFile::from_doc("foo", Document::new("a.b", Item::new(kind, "Foo"))));
    }
    if c.cfoo {
        // this file has a recovered syntax error (tree + diagnostics): it still registers c.Foo
        let mut f = ProjFile::from_doc("cfoo", Document::new("c", Item::new(ItemKind::Parcelable, "Foo")));
        f.text = "package c; parcelable Foo { int ; int x; }".to_string();
        v.push(f);
        // a project item named like a built-in: imports of it resolve to the item
        v.push(ProjFile::from_doc("myib", Document::new("my", Item::new(ItemKind::Enum, "IBinder"))));
    }
    if c.xfoo {
        v.push(ProjFile::from_doc("xfoo", Document::new("a.b", Item::new(ItemKind::Enum, "XFoo"))));
    }
    v
}

/// observed file: 0 interface (return / argument / constant positions), 1 parcelable (fields)
fn observed(c: &Config, which: usize, only: Option<(usize, usize, usize)>) -> Document {
    let mut item = if which == 0 {
        Item::new(ItemKind::Interface, "Obs")
    } else {
        Item::new(ItemKind::Parcelable, "Obs")
    };
    let mut k = 0;
    let (imports_a, decls_a, names_a) = alpha(c.alpha);
    for (ni, n) in names_a.iter().enumerate() {
        for (ci, t) in contexts(leaf(n)).into_iter().enumerate() {
            let positions: &[usize] = if which == 0 { &[0, 1, 3] } else { &[2, 4] };
            for pos in positions {
                if let Some(o) = only {
                    if o != (ni, ci, *pos) {
                        continue;
                    }
                }
                let name = format!("n{k}");
                k += 1;
                item.members.push(match pos {
                    0 => Member::Method(Method::new(t.clone(), &name, vec![])),
                    1 => Member::Method(Method::new(Ty::void(), &name, vec![Arg::new(Some("in"), t.clone(), Some("a"))])),
                    2 => Member::Field(Field::new(t.clone(), &name, None)),
                    // 3: constant of the interface, 4: constant of the parcelable
                    _ => Member::Const(Const::new(t.clone(), &name, Value::Scalar(Scalar::Integer("1".into())))),
                });
            }
        }
    }
    let mut d = Document::new("obs", item);
    d.imports = c.imports.iter().map(|i| Import::new(imports_a[*i])).collect();
    // size dimension: every fourth configuration carries 20 more (unrelated) imports
    if (c.imports.iter().sum::<usize>() + c.decls + c.foo_kind) % 4 == 3 {
        for k in 0..20 {
            d.imports.insert(k % (d.imports.len() + 1), Import::new(&format!("pad.k{}.Pad{k}", k % 3)));
        }
    }
    for (i, n) in decls_a.iter().enumerate() {
        if c.decls & (1 << i) != 0 {
            d.decls.push(Decl::new(n));
            if *n == "Bar" {
                // a forward declaration named like a built-in wins over the built-in
                d.decls.push(Decl::new("ParcelFileDescriptor"));
            }
        }
    }
    d
}

pub fn make_case(c: &Config, which: usize, only: Option<(usize, usize, usize)>, h: History, label: String) -> Case {
    let mut files = support_files(c);
    let spaced = label.contains("layout=spaced");
    if spaced {
        // every token of the observed file separated by a comment and a line break
        let mut d = observed(c, which, only);
        let toks = emit(&mut d);
        let r = crate::model::layout::render(
            &toks,
            &crate::model::layout::Layout { name: "spaced".into(), dev: vec![], base: Some(" /*c*/\n".into()) },
        );
        files.push(ProjFile::from_rendered("obs", d, r));
    } else {
        files.push(ProjFile::from_doc("obs", observed(c, which, only)));
    }
    let oi = files.len() - 1;
    let exp = expect_observed(&files, oi);
    // region: the name span of every user-type reference
    let regions: Vec<Loc> = exp
        .types
        .iter()
        .filter(|t| t.res != Res::NotCustom)
        .map(|t| Loc::exact(t.name_span.0, t.name_span.1))
        .collect();
    let recs: Vec<Rec> = exp
        .recs
        .iter()
        .filter(|r| regions.iter().any(|g| g.admits(r.anchor.lo, r.anchor.hi)) && r.anchor.exact)
        .cloned()
        .collect();
    let mut expect = expect_json(&exp, &recs, &regions, "obs");
    if h != History::Plain {
        expect["ops"] = history_ops(&files, h);
    }
    Case {
        prop: PROP.into(),
        kind: format!("{h:?}/{}", if only.is_some() { "unpacked" } else { "packed" }),
        label,
        files: files.iter().map(|f| (f.id.clone(), f.text.clone())).collect(),
        expect,
    }
}

pub fn check_case(case: &Case) -> CheckResult {
    let mut r = check_region_case(case, true, false);
    if let Some(types) = case.expect["types"].as_array() {
        for t in types {
            let res = t["res"].as_str().unwrap_or("");
            if res != "NotCustom" {
                r.outcomes.push(format!("resolution:{}", res.split('(').next().unwrap_or("")));
            }
        }
    }
    r
}

pub fn configs(tier: Tier) -> Vec<Config> {
    let mut v = Vec::new();
    for imports in import_sets() {
        for decls in 0..8 {
            for foo_kind in 0..4 {
                for cfoo in [false, true] {
                    for xfoo in [false, true] {
                        if xfoo && tier == Tier::Quick {
                            continue;
                        }
                        v.push(Config {
                            alpha: 0,
                            imports: imports.clone(),
                            decls,
                            foo_kind,
                            cfoo,
                            xfoo,
                        });
                    }
                }
            }
        }
    }
    // the data-value alphabet: every set of <= 2 of its 10 imports x every declaration set x
    // project present (two kind rotations) / absent
    let mut sets: Vec<Vec<usize>> = vec![vec![]];
    for a in 0..IMPORTS_B.len() {
        sets.push(vec![a]);
        for b in (a + 1)..IMPORTS_B.len() {
            sets.push(vec![a, b]);
        }
    }
    for imports in sets {
        for decls in 0..8 {
            for foo_kind in 0..3 {
                v.push(Config {
                    alpha: 1,
                    imports: imports.clone(),
                    decls,
                    foo_kind,
                    cfoo: false,
                    xfoo: false,
                });
            }
        }
    }
    v
}

pub fn run(tier: Tier, seed: u64) -> i32 {
    let stats = Stats::new(PROP, tier, seed);
    let cfgs = configs(tier);
    let hist = [History::Plain, History::Replaced, History::ExtraRemoved, History::Reversed, History::ExtraBroken];
    // packed: every configuration x 2 observed files; non-plain histories on a stride
    let stride = if tier == Tier::Quick { 5 } else { 1 };
    let n = cfgs.len() * 2 * hist.len();
    super::drive(
        &stats,
        n,
        4,
        |i| {
            let h = hist[i % hist.len()];
            let which = (i / hist.len()) % 2;
            let ci = i / (hist.len() * 2);
            if h != History::Plain && ci % stride != 0 {
                return None;
            }
            let c = &cfgs[ci];
            let label = format!(
                "imports={:?} decls={:03b} a.b.Foo={} c.Foo={} a.b.XFoo={} observed={} history={h:?}",
                c.imports.iter().map(|i| alpha(c.alpha).0[*i]).collect::<Vec<_>>(),
                c.decls,
                ["absent", "interface", "parcelable", "enum"][c.foo_kind],
                c.cfoo,
                c.xfoo,
                ["interface", "parcelable"][which]
            );
            let label = if h == History::Plain && ci % 3 == 1 { format!("{label} layout=spaced") } else { label };
            stats.nontrivial(fnv(&format!("{}{:?}{}{}{}{}", c.alpha, c.imports, c.decls, c.foo_kind, c.cfoo, c.xfoo)));
            let case = make_case(c, which, None, h, label);
            if i % 4001 == 0 {
                stats.sample(json!({"label": case.label, "files": case.files.iter().map(|f| (f.0.clone(), if f.1.len() > 400 { format!("{}...", &f.1[..400]) } else { f.1.clone() })).collect::<Vec<_>>()}));
            }
            Some(case)
        },
        check_case,
    );
    stats.space(json!({"space": "packed", "configurations": cfgs.len(), "type_references_per_configuration": NAMES.len() * 5 * 5, "histories": ["Plain", "Replaced", "ExtraRemoved", "Reversed", "ExtraBroken"], "non_plain_history_stride": stride}));
    eprintln!("  packed done t={:.1}s", stats.elapsed());
    // unpacked: one type reference per file
    let ucfg: Vec<usize> = if tier == Tier::Quick {
        (0..cfgs.len()).filter(|i| i % 300 == 7 && cfgs[*i].alpha == 0).collect()
    } else {
        (0..cfgs.len()).filter(|i| i % 20 == 7 && cfgs[*i].alpha == 0).collect()
    };
    let per = NAMES.len() * 5 * 5;
    super::drive(
        &stats,
        ucfg.len() * per,
        4,
        |i| {
            let c = &cfgs[ucfg[i / per]];
            let k = i % per;
            let (ni, ci, pos) = (k / 25, (k / 5) % 5, k % 5);
            let which = if pos == 2 || pos == 4 { 1 } else { 0 };
            let label = format!(
                "unpacked name={} context={} position={} imports={:?} decls={:03b} a.b.Foo={}",
                NAMES[ni],
                ci,
                pos,
                c.imports.iter().map(|i| IMPORTS[*i]).collect::<Vec<_>>(),
                c.decls,
                c.foo_kind
            );
            Some(make_case(c, which, Some((ni, ci, pos)), History::Plain, label))
        },
        check_case,
    );
    stats.space(json!({"space": "unpacked", "configurations": ucfg.len(), "cases": ucfg.len() * per}));
    let kinds = ["Builtin", "Item", "UnknownImport", "Fwd", "Unresolved"];
    let all_seen = kinds.iter().all(|k| stats.outcome_count(&format!("resolution:{k}")) > 0);
    finish(
        &stats,
        "every subset of <= 3 of 8 imports x every set of 3 forward declarations x project contexts (a.b.Foo as interface / parcelable / enum / absent, c.Foo and a.b.XFoo present / absent); the observed file holds each of 15 written names in each of 5 nesting contexts (depth 0-4) in each of 5 positions (return, argument, field, interface constant, parcelable constant); the kind of every type node after validate() and the diagnostics on type-name spans are compared with the statement's resolution rule; the same projects are also reached through replace / add-remove / reverse histories; distinct_nontrivial counts distinct configurations",
        &[
            "reference resolution rule transcribed from the statement (model/sema.rs); names matched by several imports are left open (explored under C11)",
            "diagnostics are compared inside the name spans of user-type references only",
        ],
        &|c| check_case(c).to_result(),
        &[("every resolution outcome occurs", all_seen)],
    )
}

pub fn replay(case: &Case) -> Result<(), String> {
    check_case(case).to_result()
}
