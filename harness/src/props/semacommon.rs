//! Shared machinery of the validation properties (C05-C10, C13, C17): project cases, the
//! comparison of real diagnostics with reference records inside a region, history variants.

use super::{guarded, CheckResult, Results};
use crate::model::doc::{emit, layout_lines, Document, Rendered};
use crate::model::sema::{expect_file, FileExp, Loc, ProjectFacts, Rec, Res, Sev, TypeExp};
use crate::report::Case;
use aidl_parser::diagnostic::{Diagnostic, DiagnosticKind};
use aidl_parser::{ast, Parser};
use serde_json::{json, Value};

pub struct ProjFile {
    pub id: String,
    pub doc: Option<Document>,
    /// text (rendered document, or raw text for files without a model)
    pub text: String,
    pub rendered: Option<Rendered>,
}

impl ProjFile {
    pub fn from_doc(id: &str, mut doc: Document) -> ProjFile {
        let toks = emit(&mut doc);
        let r = layout_lines(&toks);
        ProjFile {
            id: id.to_string(),
            text: r.text.clone(),
            doc: Some(doc),
            rendered: Some(r),
        }
    }
    /// one statement per line, with doc / block comments (some ending in an even run of stars)
    /// and line comments between the statements
    pub fn from_doc_commented(id: &str, mut doc: Document) -> ProjFile {
        let toks = emit(&mut doc);
        let n = toks.len();
        let r = crate::model::doc::layout(&toks, &|i| {
            use crate::model::lex::Kind;
            if i == 0 {
                return Some("/** header **/\n".to_string());
            }
            if i >= n {
                return Some("\n/* end */\n".to_string());
            }
            if matches!(toks[i - 1].kind, Kind::Semi | Kind::LBrace | Kind::RBrace) {
                return Some(
                    match i % 4 {
                        0 => "\n  /** doc **/\n  ",
                        1 => "\n  /* plain */ // line\n  ",
                        2 => "\n  /***/ ",
                        _ => "\r\n  /**\r\n   * doc é\r\n   **/\r\n  ",
                    }
                    .to_string(),
                );
            }
            None
        });
        ProjFile {
            id: id.to_string(),
            text: r.text.clone(),
            doc: Some(doc),
            rendered: Some(r),
        }
    }
    /// `commented` selects the commented layout
    pub fn from_doc_styled(id: &str, doc: Document, commented: bool) -> ProjFile {
        if commented {
            ProjFile::from_doc_commented(id, doc)
        } else {
            ProjFile::from_doc(id, doc)
        }
    }
    pub fn from_rendered(id: &str, doc: Document, r: Rendered) -> ProjFile {
        ProjFile {
            id: id.to_string(),
            text: r.text.clone(),
            doc: Some(doc),
            rendered: Some(r),
        }
    }
    pub fn raw(id: &str, text: &str) -> ProjFile {
        ProjFile {
            id: id.to_string(),
            doc: None,
            text: text.to_string(),
            rendered: None,
        }
    }
}

pub fn facts_of(files: &[ProjFile]) -> ProjectFacts {
    ProjectFacts::from_docs(files.iter().filter_map(|f| f.doc.as_ref()))
}

pub fn expect_observed(files: &[ProjFile], observed: usize) -> FileExp {
    let facts = facts_of(files);
    let f = &files[observed];
    expect_file(f.doc.as_ref().unwrap(), f.rendered.as_ref().unwrap(), &facts)
}

/// History variants reaching the same final project.
#[derive(Clone, Copy, Debug, PartialEq)]
pub enum History {
    Plain,
    /// every id first receives the content of its neighbour, then its own
    Replaced,
    /// an extra file registering popular keys is added first and removed at the end,
    /// with a validation in between
    ExtraRemoved,
    /// files are added in reverse order
    Reversed,
    /// extra ids first hold contents registering popular keys and are then replaced by content
    /// without a tree (which stays in the project and registers nothing)
    ExtraBroken,
}

const DECOYS: [&str; 6] = [
    "package a.b; parcelable Foo { }",
    "package c; enum Foo { A }",
    "package a.b; interface XFoo { }",
    "package t; enum Par { A }",
    "package d; interface Used { }",
    "package p; interface Tgt { }",
];

pub fn history_ops(files: &[ProjFile], h: History) -> Value {
    let mut ops: Vec<Value> = Vec::new();
    let n = files.len();
    match h {
        History::Plain => {
            for f in files {
                ops.push(json!(["add", f.id, f.text]));
            }
        }
        History::Reversed => {
            for f in files.iter().rev() {
                ops.push(json!(["add", f.id, f.text]));
            }
        }
        History::Replaced => {
            // transient contents registering popular keys under an id that is overwritten later
            if let Some(last) = files.last() {
                for d in [
                    "package a.b; parcelable Foo { }",
                    "package c; enum Foo { A }",
                    "package a.b; interface XFoo { }",
                    "package t; enum Par { A }",
                    "package d; interface Used { }",
                    "this is not AIDL",
                ] {
                    ops.push(json!(["add", last.id, d]));
                    ops.push(json!(["validate"]));
                }
            }
            for (i, f) in files.iter().enumerate() {
                ops.push(json!(["add", f.id, files[(i + 1) % n].text]));
            }
            ops.push(json!(["validate"]));
            for f in files {
                ops.push(json!(["add", f.id, f.text]));
            }
        }
        History::ExtraBroken => {
            for (k, d) in DECOYS.iter().enumerate() {
                ops.push(json!(["add", format!("zz-broken-{k}"), d]));
            }
            for f in files {
                ops.push(json!(["add", f.id, f.text]));
            }
            ops.push(json!(["validate"]));
            for (k, _) in DECOYS.iter().enumerate() {
                ops.push(json!(["add", format!("zz-broken-{k}"), if k % 2 == 0 { "this is not AIDL" } else { "package zz; parcelable Broken {" }]));
            }
        }
        History::ExtraRemoved => {
            ops.push(json!(["add", "zz-extra-1", "package a.b; enum Foo { A }"]));
            ops.push(json!(["add", "zz-extra-2", "package c; interface Foo { }"]));
            for f in files {
                ops.push(json!(["add", f.id, f.text]));
            }
            ops.push(json!(["validate"]));
            ops.push(json!(["remove", "zz-extra-1"]));
            ops.push(json!(["remove", "zz-extra-2"]));
        }
    }
    Value::Array(ops)
}

/// Execute the ops of a case (or plain insertion of case.files) and validate.
pub fn run_project(case: &Case) -> Result<(Results, Results), String> {
    guarded(|| {
        let mut p: Parser<String> = Parser::new();
        match case.expect.get("ops").and_then(|o| o.as_array()) {
            Some(ops) => {
                for op in ops {
                    let a = op.as_array().unwrap();
                    match a[0].as_str().unwrap() {
                        "add" => p.add_content(a[1].as_str().unwrap().to_string(), a[2].as_str().unwrap()),
                        "remove" => p.remove_content(a[1].as_str().unwrap().to_string()),
                        "validate" => {
                            let _ = p.validate();
                        }
                        _ => {}
                    }
                }
            }
            None => {
                for (id, text) in &case.files {
                    p.add_content(id.clone(), text);
                }
            }
        }
        let _ = aidl_parser::verif_hooks::take_expected();
        let parse = p.verif_parse_results().clone();
        let valid = p.validate();
        let _ = aidl_parser::verif_hooks::take_orders();
        (parse, valid)
    })
}

fn sev_of(d: &Diagnostic) -> Sev {
    match d.kind {
        DiagnosticKind::Error => Sev::Error,
        DiagnosticKind::Warning => Sev::Warning,
    }
}

fn span_of(d: &Diagnostic) -> (usize, usize) {
    (d.range.start.offset, d.range.end.offset)
}

/// Compare, inside `regions`, the real validation diagnostics with the reference records.
pub fn compare_region(
    recs: &[Rec],
    regions: &[Loc],
    dont_care: &[(usize, usize)],
    real: &[&Diagnostic],
    errs: &mut Vec<String>,
) {
    let in_dc = |s: usize, e: usize| dont_care.iter().any(|(a, b)| s >= *a && e <= *b);
    let mut pool: Vec<&Diagnostic> = real
        .iter()
        .copied()
        .filter(|d| {
            let (s, e) = span_of(d);
            regions.iter().any(|r| r.admits(s, e)) && !in_dc(s, e)
        })
        .collect();
    // exact records first, then the loosely located ones
    let mut order: Vec<&Rec> = recs.iter().collect();
    order.sort_by_key(|r| (r.optional, !r.anchor.exact));
    for rec in order {
        if in_dc(rec.anchor.lo, rec.anchor.hi) && rec.anchor.exact {
            continue;
        }
        let pos = pool.iter().position(|d| {
            let (s, e) = span_of(d);
            if sev_of(d) != rec.sev || !rec.admits(s, e) {
                return false;
            }
            match &rec.related {
                None => true,
                Some(rel) => {
                    if rel.len() != d.related_infos.len() {
                        return false;
                    }
                    rel.iter().zip(d.related_infos.iter()).all(|(l, ri)| {
                        l.admits(ri.range.start.offset, ri.range.end.offset)
                    })
                }
            }
        });
        match pos {
            Some(p) => {
                pool.remove(p);
            }
            None if rec.optional => {}
            None => {
                // is there a diagnostic at the right place with the wrong related info?
                let near = pool.iter().find(|d| {
                    let (s, e) = span_of(d);
                    sev_of(d) == rec.sev && rec.admits(s, e)
                });
                match near {
                    Some(d) => errs.push(format!(
                        "{} {:?} at {:?}: reported, but its related information {:?} does not point where the statement says ({:?})",
                        rec.class,
                        rec.sev,
                        (rec.anchor.lo, rec.anchor.hi),
                        d.related_infos.iter().map(|r| (r.range.start.offset, r.range.end.offset)).collect::<Vec<_>>(),
                        rec.related
                    )),
                    None => errs.push(format!(
                        "missing diagnostic: {} ({:?}) expected {} {:?}",
                        rec.class,
                        rec.sev,
                        if rec.anchor.exact { "exactly at" } else { "within" },
                        (rec.anchor.lo, rec.anchor.hi)
                    )),
                }
            }
        }
    }
    for d in pool {
        errs.push(format!(
            "unexpected diagnostic in the checked region: {}",
            super::diag_str(d)
        ));
    }
}

/// real validation diagnostics of a file = validated minus parse-stage (multiset)
pub fn validation_diags<'a>(
    parse: &'a aidl_parser::ParseFileResult<String>,
    valid: &'a aidl_parser::ParseFileResult<String>,
) -> Vec<&'a Diagnostic> {
    let mut syn: Vec<&Diagnostic> = parse.diagnostics.iter().collect();
    let mut out = Vec::new();
    for d in &valid.diagnostics {
        if let Some(p) = syn.iter().position(|x| *x == d) {
            syn.swap_remove(p);
        } else {
            out.push(d);
        }
    }
    out
}

pub fn kind_str(k: &ast::TypeKind) -> String {
    match k {
        ast::TypeKind::AndroidType(a) => format!("Builtin({a:?})"),
        ast::TypeKind::ResolvedItem(key, kind) => match kind {
            ast::ResolvedItemKind::Interface => format!("Item({key},Interface)"),
            ast::ResolvedItemKind::Parcelable => format!("Item({key},Parcelable)"),
            ast::ResolvedItemKind::Enum => format!("Item({key},Enum)"),
            ast::ResolvedItemKind::ForwardDeclaredParcelable => format!("Fwd({key})"),
            ast::ResolvedItemKind::UnknownImport => format!("UnknownImport({key})"),
        },
        ast::TypeKind::Unresolved => "Unresolved".into(),
        _ => "NotCustom".into(),
    }
}

pub fn res_str(r: &Res) -> String {
    match r {
        Res::Builtin(b) => format!("Builtin({b:?})"),
        Res::Item(k, kind) => format!("Item({k},{kind:?})"),
        Res::UnknownImport(k) => format!("UnknownImport({k})"),
        Res::Fwd(n) => format!("Fwd({n})"),
        Res::Unresolved => "Unresolved".into(),
        Res::NotCustom => "NotCustom".into(),
        Res::Ambiguous => "Ambiguous".into(),
    }
}

/// (path, kind) of every type node of a tree, in the path scheme of the model
pub fn type_kinds(a: &ast::Aidl) -> Vec<(String, String, (usize, usize))> {
    let mut v = Vec::new();
    fn ty(v: &mut Vec<(String, String, (usize, usize))>, t: &ast::Type, path: &str) {
        v.push((
            path.to_string(),
            kind_str(&t.kind),
            (t.symbol_range.start.offset, t.symbol_range.end.offset),
        ));
        for (i, g) in t.generic_types.iter().enumerate() {
            ty(v, g, &format!("{path}.g{i}"));
        }
    }
    match &a.item {
        ast::Item::Interface(it) => {
            for (i, e) in it.elements.iter().enumerate() {
                let p = format!("m{i}");
                match e {
                    ast::InterfaceElement::Method(m) => {
                        ty(&mut v, &m.return_type, &format!("{p}.ret"));
                        for (j, a) in m.args.iter().enumerate() {
                            ty(&mut v, &a.arg_type, &format!("{p}.a{j}.type"));
                        }
                    }
                    ast::InterfaceElement::Const(c) => ty(&mut v, &c.const_type, &format!("{p}.type")),
                }
            }
        }
        ast::Item::Parcelable(it) => {
            for (i, e) in it.elements.iter().enumerate() {
                let p = format!("m{i}");
                match e {
                    ast::ParcelableElement::Field(f) => ty(&mut v, &f.field_type, &format!("{p}.type")),
                    ast::ParcelableElement::Const(c) => ty(&mut v, &c.const_type, &format!("{p}.type")),
                }
            }
        }
        ast::Item::Enum(_) => {}
    }
    v
}

pub fn types_json(types: &[TypeExp]) -> Value {
    json!(types
        .iter()
        .map(|t| json!({"path": t.path, "name": t.name, "span": [t.name_span.0, t.name_span.1], "res": res_str(&t.res)}))
        .collect::<Vec<_>>())
}

/// Build the expectation part shared by the validation checks.
pub fn expect_json(exp: &FileExp, recs: &[Rec], regions: &[Loc], observed: &str) -> Value {
    json!({
        "observed": observed,
        "recs": recs,
        "regions": regions,
        "dont_care": exp.dont_care,
        "types": types_json(&exp.types),
        "method_oneway": exp.method_oneway,
    })
}

/// Generic implementation-side check: region comparison (+ optionally kinds and oneway flags).
/// `package a.b; interface|parcelable|enum Name { }` and nothing else (comments allowed)
pub fn is_bare_item(text: &str) -> bool {
    use crate::model::lex::{lex, Kind};
    let lx = lex(text);
    if lx.unlexable.is_some() {
        return false;
    }
    let k: Vec<Kind> = lx.toks.iter().map(|t| t.kind).collect();
    if k.len() < 7 || k[0] != Kind::Package {
        return false;
    }
    let mut i = 1;
    if k[i] != Kind::Ident {
        return false;
    }
    i += 1;
    while i + 1 < k.len() && k[i] == Kind::Dot && k[i + 1] == Kind::Ident {
        i += 2;
    }
    k[i..] == [Kind::Semi, Kind::Interface, Kind::Ident, Kind::LBrace, Kind::RBrace]
        || k[i..] == [Kind::Semi, Kind::Parcelable, Kind::Ident, Kind::LBrace, Kind::RBrace]
        || k[i..] == [Kind::Semi, Kind::Enum, Kind::Ident, Kind::LBrace, Kind::RBrace]
}

pub fn check_region_case(case: &Case, check_kinds: bool, check_oneway: bool) -> CheckResult {
    let mut r = CheckResult::default();
    let (parse, valid) = match run_project(case) {
        Ok(x) => x,
        Err(p) => {
            r.fail(format!("library panicked: {p}"));
            return r;
        }
    };
    let obs_id = case.expect["observed"].as_str().unwrap_or("f").to_string();
    let (pr, vr) = match (parse.get(&obs_id), valid.get(&obs_id)) {
        (Some(a), Some(b)) => (a, b),
        _ => {
            r.fail(format!("no result for the observed file {obs_id}"));
            return r;
        }
    };
    let tree = match &vr.ast {
        Some(t) => t,
        None => {
            r.fail("observed (well-formed) file has no tree".into());
            return r;
        }
    };
    let recs: Vec<Rec> = serde_json::from_value(case.expect["recs"].clone()).unwrap_or_default();
    let regions: Vec<Loc> = serde_json::from_value(case.expect["regions"].clone()).unwrap_or_default();
    let dont_care: Vec<(usize, usize)> =
        serde_json::from_value(case.expect["dont_care"].clone()).unwrap_or_default();
    let real = validation_diags(pr, vr);
    let mut errs = Vec::new();
    compare_region(&recs, &regions, &dont_care, &real, &mut errs);
    if check_kinds {
        let got = type_kinds(tree);
        if let Some(types) = case.expect["types"].as_array() {
            for t in types {
                let path = t["path"].as_str().unwrap_or("");
                let want = t["res"].as_str().unwrap_or("");
                if want == "Ambiguous" {
                    continue;
                }
                match got.iter().find(|g| g.0 == path) {
                    None => errs.push(format!("type node {path} missing from the tree")),
                    Some(g) => {
                        if g.1 != want {
                            errs.push(format!(
                                "type `{}` at {path} {:?}: resolved as {} but AIDL scoping prescribes {}",
                                t["name"].as_str().unwrap_or(""),
                                g.2,
                                g.1,
                                want
                            ));
                        }
                    }
                }
            }
        }
    }
    if check_oneway {
        if let (Some(want), ast::Item::Interface(it)) = (case.expect["method_oneway"].as_array(), &tree.item) {
            let got: Vec<bool> = it
                .elements
                .iter()
                .filter_map(|e| e.as_method().map(|m| m.oneway))
                .collect();
            let want: Vec<bool> = want.iter().map(|b| b.as_bool().unwrap_or(false)).collect();
            if got != want {
                errs.push(format!(
                    "oneway flags of the methods in the returned tree are {got:?}, expected {want:?}"
                ));
            }
        }
    }
    // bystanders: a supporting file that is a bare item (`package x; <kind> Name { }` - no import,
    // no declaration, no member) gives no rule anything to say, whatever else the project holds
    // and in whatever order the files are processed
    for (id, text) in &case.files {
        if *id != obs_id && is_bare_item(text) {
            match valid.get(id) {
                Some(res) => {
                    if res.ast.is_none() || !res.diagnostics.is_empty() {
                        errs.push(format!(
                            "supporting file {id} (`{text}`) must come back with a tree and without diagnostics, got tree={} and {:?}",
                            res.ast.is_some(),
                            res.diagnostics.iter().map(super::diag_str).collect::<Vec<_>>()
                        ));
                    }
                }
                None => errs.push(format!("no result for the supporting file {id}")),
            }
        }
    }
    r.outcomes.push(format!("expected-diagnostics:{}", recs.len().min(9)));
    errs.truncate(6);
    for e in errs {
        r.fail(e);
    }
    r
}
