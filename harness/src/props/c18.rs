//! C18 — documentation is taken from the directly preceding doc comment, verbatim.

use super::{run_files, CheckResult};
use crate::model::doc::*;
use crate::model::docs::{all_shapes, representative_shapes, DocShape, Style};
use crate::report::{finish, fnv, Case, Stats, Tier};
use aidl_parser::ast;
use serde_json::json;

pub const PROP: &str = "C18";

/// host documents: every documentable construct carries an annotation-free and an annotated
/// instance where the grammar allows annotations
fn hosts() -> Vec<Document> {
    let mut it = Item::new(ItemKind::Interface, "I");
    it.annots.push(Annot::simple("@X"));
    let mut m = Method::new(
        Ty::void(),
        "f",
        vec![Arg::new(Some("in"), Ty::prim("int"), Some("a")), Arg::new(None, Ty::string(), Some("b"))],
    );
    m.annots.push(Annot::simple("@A"));
    m.args[0].annots.push(Annot::simple("@B"));
    let mut c = Const::new(Ty::prim("int"), "K", Value::Scalar(Scalar::Integer("1".into())));
    c.annots.push(Annot::simple("@Hide"));
    it.members = vec![
        Member::Method(m),
        Member::Const(c),
        Member::Method(Method::new(Ty::prim("int"), "g", vec![])),
        Member::Const(Const::new(Ty::string(), "S", Value::Scalar(Scalar::Str("\"s\"".into())))),
    ];
    let interface = Document::new("p", it);
    let mut pt = Item::new(ItemKind::Parcelable, "P");
    let mut f = Field::new(Ty::prim("int"), "x", None);
    f.annots.push(Annot::simple("@A"));
    let mut pc = Const::new(Ty::prim("int"), "LIMIT", Value::Scalar(Scalar::Integer("1".into())));
    pc.annots.push(Annot::simple("@Hide"));
    pt.members = vec![
        Member::Field(f),
        Member::Field(Field::new(Ty::string(), "y", Some(Value::Scalar(Scalar::Str("\"s\"".into()))))),
        Member::Const(pc),
    ];
    let parcelable = Document::new("p", pt);
    let mut et = Item::new(ItemKind::Enum, "E");
    et.annots.push(Annot::simple("@X"));
    let mut e1 = EnumElem::new("A", None);
    e1.annots.push(Annot::simple("@A"));
    et.elems = vec![e1, EnumElem::new("B", Some(Scalar::Integer("2".into()))), EnumElem::new("C", None)];
    let en = Document::new("p", et);
    vec![interface, parcelable, en]
}

/// (host index, construct label, first token of the construct incl. annotations, path of the
/// construct in the tree, first token of the previous sibling construct if any)
fn targets(hosts: &[Document]) -> Vec<(usize, String, usize, String, Option<(usize, String)>)> {
    let mut v = Vec::new();
    for (hi, d) in hosts.iter().enumerate() {
        v.push((hi, format!("{:?} item", d.item.kind), d.item.first_tok, "item".to_string(), None));
        let mut prev: Option<(usize, String)> = None;
        if d.item.kind == ItemKind::Enum {
            for (i, e) in d.item.elems.iter().enumerate() {
                v.push((hi, format!("enum element {}", e.name), e.first_tok, format!("e{i}"), prev.clone()));
                prev = Some((e.first_tok, format!("e{i}")));
            }
        } else {
            for (i, m) in d.item.members.iter().enumerate() {
                let (first, _) = m.extent();
                let kind = match m {
                    Member::Method(_) => "method",
                    Member::Const(_) => "constant",
                    Member::Field(_) => "field",
                };
                v.push((hi, format!("{kind} {}", m.name()), first, format!("m{i}"), prev.clone()));
                prev = Some((first, format!("m{i}")));
                if let Member::Method(mm) = m {
                    let mut aprev: Option<(usize, String)> = None;
                    for (j, a) in mm.args.iter().enumerate() {
                        v.push((hi, format!("argument {j} of {}", mm.name), a.span.first, format!("m{i}.a{j}"), aprev.clone()));
                        aprev = Some((a.span.first, format!("m{i}.a{j}")));
                    }
                }
            }
        }
    }
    v
}

/// documentation of every documentable construct of a tree, by path
fn docs_of(a: &ast::Aidl) -> Vec<(String, Option<String>)> {
    let mut v = Vec::new();
    match &a.item {
        ast::Item::Interface(it) => {
            v.push(("item".to_string(), it.doc.clone()));
            for (i, e) in it.elements.iter().enumerate() {
                match e {
                    ast::InterfaceElement::Method(m) => {
                        v.push((format!("m{i}"), m.doc.clone()));
                        for (j, arg) in m.args.iter().enumerate() {
                            v.push((format!("m{i}.a{j}"), arg.doc.clone()));
                        }
                    }
                    ast::InterfaceElement::Const(c) => v.push((format!("m{i}"), c.doc.clone())),
                }
            }
        }
        ast::Item::Parcelable(it) => {
            v.push(("item".to_string(), it.doc.clone()));
            for (i, e) in it.elements.iter().enumerate() {
                match e {
                    ast::ParcelableElement::Field(f) => v.push((format!("m{i}"), f.doc.clone())),
                    ast::ParcelableElement::Const(c) => v.push((format!("m{i}"), c.doc.clone())),
                }
            }
        }
        ast::Item::Enum(it) => {
            v.push(("item".to_string(), it.doc.clone()));
            for (i, e) in it.elements.iter().enumerate() {
                v.push((format!("e{i}"), e.doc.clone()));
            }
        }
    }
    v
}

pub const SITUATIONS: [&str; 11] = [
    "none",
    "ordinary block comment only",
    "ordinary line comment only",
    "doc comment",
    "doc comment then ordinary block and line comments",
    "two doc comments",
    "doc comment, then a space instead of a line break",
    "doc comment on the previous sibling, same line",
    "doc comment on the previous sibling, previous line",
    "doc comments on this construct and on its previous sibling",
    "doc comment then a dozen long line comments",
];

/// Build the source text: base layout = one statement per line; `pre` is put in front of token
/// `at` (followed by `sep`), `pre_prev` in front of token `at_prev`.
fn render_with(toks: &[Tok], eol: &str, inserts: &[(usize, String)], same_line: Option<usize>) -> String {
    let r = layout(toks, &|i| {
        let mut gap = String::new();
        if same_line == Some(i) {
            gap.push(' ');
        } else if i > 0 && i < toks.len() {
            if matches!(toks[i - 1].kind, crate::model::lex::Kind::Semi | crate::model::lex::Kind::LBrace | crate::model::lex::Kind::RBrace) {
                gap.push_str(eol);
                gap.push_str("  ");
            } else {
                gap.push(' ');
            }
        }
        for (at, text) in inserts {
            if *at == i {
                gap.push_str(text);
            }
        }
        Some(gap)
    });
    r.text
}

struct Gen {
    hosts: Vec<Document>,
    toks: Vec<Vec<Tok>>,
    targets: Vec<(usize, String, usize, String, Option<(usize, String)>)>,
}

impl Gen {
    fn new() -> Gen {
        let mut hosts = hosts();
        let toks: Vec<Vec<Tok>> = hosts.iter_mut().map(emit).collect();
        let targets = targets(&hosts);
        Gen { hosts, toks, targets }
    }

    fn case(&self, ti: usize, situation: usize, shape: &DocShape, style: Style, crlf: bool) -> Option<Case> {
        let (hi, label, at, path, prev) = &self.targets[ti];
        let eol = if crlf { "\r\n" } else { "\n" };
        let doc = shape.render(style, eol, "  ");
        let other = DocShape {
            paras: vec![vec!["other doc".to_string()]],
            tags: vec![],
        };
        let mut inserts: Vec<(usize, String)> = Vec::new();
        let mut expect: Vec<(String, Option<String>)> = Vec::new();
        let me = |d: Option<String>| (path.clone(), d);
        match situation {
            0 => expect.push(me(None)),
            1 => {
                inserts.push((*at, format!("/* Größe é */{eol}  ")));
                expect.push(me(None));
            }
            2 => {
                inserts.push((*at, format!("// Größe é{eol}  ")));
                expect.push(me(None));
            }
            3 => {
                inserts.push((*at, format!("{doc}{eol}  ")));
                expect.push(me(Some(shape.expected())));
            }
            4 => {
                inserts.push((*at, format!("{doc}{eol}  /* plain é */ // line 日本{eol}  // void old();{eol}  //{eol}  //   {eol}  // interface Old {{{eol}  // }}{eol}  // was: void ping(int a); void pong(); }} else {{ x = 1; y{eol}  // TODO: bump on release; keep in sync (see #12) 'quoted' @tag{eol}  ")));
                expect.push(me(Some(shape.expected())));
            }
            5 => {
                inserts.push((*at, format!("{}{eol}  {doc}{eol}  ", other.render(Style::OneLine, eol, "  "))));
                expect.push(me(Some(shape.expected())));
            }
            6 => {
                inserts.push((*at, format!("{doc} ")));
                expect.push(me(Some(shape.expected())));
            }
            7 | 8 => {
                // the doc comment belongs to the previous sibling; this construct has none
                let (pat, ppath) = prev.clone()?;
                let after = if situation == 7 { " ".to_string() } else { format!("{eol}  ") };
                inserts.push((pat, format!("{doc}{after}")));
                expect.push((ppath, Some(shape.expected())));
                expect.push(me(None));
            }
            9 => {
                // both this construct and its previous sibling carry their own doc comment
                let (pat, ppath) = prev.clone()?;
                inserts.push((pat, format!("{}{eol}  ", other.render(Style::Starred, eol, "  "))));
                inserts.push((*at, format!("{doc}{eol}  ")));
                expect.push((ppath, Some(other.expected())));
                expect.push(me(Some(shape.expected())));
            }
            10 => {
                let mut t = format!("{doc}{eol}  ");
                for k in 0..12 {
                    t.push_str(&format!("// {k:02} {}{eol}  ", "commented out code, kept for reference ".repeat(2)));
                }
                inserts.push((*at, t));
                expect.push(me(Some(shape.expected())));
            }
            _ => return None,
        }
        let text = render_with(&self.toks[*hi], eol, &inserts, if situation == 7 { Some(*at) } else { None });
        Some(Case {
            prop: PROP.into(),
            kind: SITUATIONS[situation].into(),
            label: format!(
                "{label} / {} / {:?} / {} / doc {:?}",
                SITUATIONS[situation],
                style,
                if crlf { "CRLF" } else { "LF" },
                shape.expected().chars().take(100).collect::<String>()
            ),
            files: vec![("f".into(), text)],
            expect: json!({"docs": expect, "item": format!("{:?}", self.hosts[*hi].item.kind)}),
        })
    }
}

pub fn check_case(case: &Case) -> CheckResult {
    let mut r = CheckResult::default();
    let obs = match run_files(&case.files) {
        Ok(o) => o,
        Err(p) => {
            r.fail(format!("library panicked: {p}"));
            return r;
        }
    };
    let pr = &obs.parse[&case.files[0].0];
    let tree = match &pr.ast {
        Some(t) => t,
        None => {
            r.fail(format!("no tree for a well-formed document: {:?}", pr.diagnostics.iter().map(super::diag_str).collect::<Vec<_>>()));
            return r;
        }
    };
    let want: Vec<(String, Option<String>)> = serde_json::from_value(case.expect["docs"].clone()).unwrap_or_default();
    let got = docs_of(tree);
    for (path, doc) in &got {
        let expected = want.iter().find(|w| &w.0 == path).map(|w| w.1.clone()).unwrap_or(None);
        if *doc != expected {
            r.fail(format!("documentation of {path}: got {doc:?}, expected {expected:?}"));
        }
    }
    for (path, _) in &want {
        if !got.iter().any(|g| &g.0 == path) {
            r.fail(format!("construct {path} missing from the tree"));
        }
    }
    r.outcomes.push(format!("situation:{}", case.kind));
    r
}

pub fn run(tier: Tier, seed: u64) -> i32 {
    let stats = Stats::new(PROP, tier, seed);
    let g = Gen::new();
    let shapes = all_shapes();
    let reps = if tier == Tier::Quick { representative_shapes() } else { all_shapes() };
    let styles = [Style::Compact, Style::OneLine, Style::Starred, Style::Bare];
    // part 1: situation "doc comment" x every shape x every fitting style x every construct x LF/CRLF
    let shape_stride = 1;
    let nt = g.targets.len();
    let n1 = shapes.len() * styles.len() * nt * 2;
    super::drive(
        &stats,
        n1,
        1,
        |i| {
            let crlf = i % 2 == 1;
            let ti = (i / 2) % nt;
            let st = styles[(i / (2 * nt)) % styles.len()];
            let si = i / (2 * nt * styles.len());
            // quick: every third shape per construct (rotated so that all shapes occur)
            if (si + ti) % shape_stride != 0 {
                return None;
            }
            let sh = &shapes[si];
            if !sh.fits(st) {
                return None;
            }
            let c = g.case(ti, 3, sh, st, crlf)?;
            stats.nontrivial(fnv(&c.files[0].1));
            if i % 4001 == 0 {
                stats.sample(json!({"label": c.label, "text": c.files[0].1}));
            }
            Some(c)
        },
        check_case,
    );
    stats.space(json!({"space": "doc comment x shapes x styles x constructs x EOL", "shapes": shapes.len(), "styles": 4, "constructs": nt, "shape_stride_per_construct": shape_stride}));
    // part 2: every situation x representative shapes x styles x constructs x EOL
    let n2 = SITUATIONS.len() * reps.len() * styles.len() * nt * 2;
    super::drive(
        &stats,
        n2,
        1,
        |i| {
            let crlf = i % 2 == 1;
            let ti = (i / 2) % nt;
            let st = styles[(i / (2 * nt)) % styles.len()];
            let ri = (i / (2 * nt * styles.len())) % reps.len();
            let sit = i / (2 * nt * styles.len() * reps.len());
            let sh = &reps[ri];
            if !sh.fits(st) {
                return None;
            }
            if sit <= 2 && (ri > 0 || st != Style::OneLine) {
                return None; // no doc comment involved: one case per construct and EOL
            }
            let c = g.case(ti, sit, sh, st, crlf)?;
            stats.nontrivial(fnv(&c.files[0].1));
            if i % 1777 == 0 {
                stats.sample(json!({"label": c.label, "text": c.files[0].1}));
            }
            Some(c)
        },
        check_case,
    );
    stats.space(json!({"space": "situations x representative shapes x styles x constructs x EOL", "situations": SITUATIONS, "representative_shapes": reps.len()}));
    // part 3: long doc comments (600 bytes .. 5 KB) x styles x constructs x EOL x situations
    let longs: Vec<DocShape> = {
        let line = |k: usize| format!("line {k:03} of a long description, Größe é 日本 and plain words to fill it up");
        let mut v = Vec::new();
        for nlines in [1usize, 8, 9, 32, 64] {
            // one paragraph of nlines lines (a single line of ~600 bytes when nlines == 1)
            let paras = if nlines == 1 {
                vec![vec![(0..8).map(line).collect::<Vec<_>>().join(" ")]]
            } else {
                vec![(0..nlines).map(line).collect::<Vec<_>>()]
            };
            v.push(DocShape { paras, tags: vec![] });
        }
        // data values: punctuation, digits, underscores, case-sensitive letters, tags of many kinds
        v.push(DocShape {
            paras: vec![
                vec![
                    "Returns the 1st item (e.g. \"x\"), see #3; cost <= 50% & more...".to_string(),
                    "- a dash-led line, 1. numbered, x_1 = y_2 + z[3], C:\\dir\\file.txt".to_string(),
                ],
                vec!["TODO(name): fix snake_case and camelCase, ALLCAPS, Ünïcödé ǅ ß ẞ İ ı Σ ς.".to_string()],
            ],
            tags: vec![
                "@param x_1 the (first) value; may be \"null\"".to_string(),
                "@throws IllegalStateException if #x < 0".to_string(),
                "@see Foo#bar(int)".to_string(),
                "@deprecated".to_string(),
                "@return {0, 1} or [2]".to_string(),
            ],
        });
        v.push(DocShape {
            paras: vec![vec!["a".to_string()], vec!["b".to_string()], vec!["c".to_string()], vec!["0".to_string()]],
            tags: vec!["@a".to_string(), "@b c".to_string()],
        });
        // several paragraphs and tag clauses, > 2 KB
        v.push(DocShape {
            paras: (0..6).map(|p| (0..5).map(|k| line(p * 5 + k)).collect()).collect(),
            tags: vec!["@param x the first".to_string(), format!("@return {}", line(99))],
        });
        v
    };
    let sits3 = [3usize, 4, 5, 8, 9, 10];
    let n3 = sits3.len() * longs.len() * styles.len() * nt * 2;
    super::drive(
        &stats,
        n3,
        1,
        |i| {
            let crlf = i % 2 == 1;
            let ti = (i / 2) % nt;
            let st = styles[(i / (2 * nt)) % styles.len()];
            let li = (i / (2 * nt * styles.len())) % longs.len();
            let sit = sits3[i / (2 * nt * styles.len() * longs.len())];
            let sh = &longs[li];
            if !sh.fits(st) {
                return None;
            }
            let c = g.case(ti, sit, sh, st, crlf)?;
            stats.nontrivial(fnv(&c.files[0].1));
            Some(c)
        },
        check_case,
    );
    stats.space(json!({"space": "long doc comments (0.6-5 KB) and punctuation / tag-rich doc comments x 6 situations x styles x constructs x EOL", "shapes": longs.len()}));
    // part 4: the situation with a dozen line comments x representative shapes
    let all = SITUATIONS.iter().all(|s| stats.outcome_count(&format!("situation:{s}")) > 0);
    finish(
        &stats,
        "every documentable construct (interface / parcelable / enum item, annotated and plain methods, arguments, constants, fields, enum elements) x 10 situations (none, ordinary comments only, doc comment, doc comment followed by ordinary comments, two doc comments, doc comment before annotations, doc comment belonging to the previous sibling on the same / previous line) x doc shapes (paragraphs x lines x words over ASCII, accented, CJK, emoji; tag clauses; empty doc) x 4 rendering styles x LF / CRLF; the doc field of every documentable construct of the tree is compared with the expected string (None for all constructs the comment does not directly precede); distinct_nontrivial counts distinct source texts",
        &["expected string: lines of a paragraph joined by one space, paragraphs and tag clauses joined by LF, words byte-identical; the statement's restrictions on comment content are the space's restrictions"],
        &|c| check_case(c).to_result(),
        &[("every situation occurs", all)],
    )
}

pub fn replay(case: &Case) -> Result<(), String> {
    check_case(case).to_result()
}
