//! C04 helpers: exact range expectations from the token table, nesting, and diagnostics ranges.

use super::astproj::{all_ranges, check_range};
use aidl_parser::ast;

fn off(r: &ast::Range) -> (usize, usize) {
    (r.start.offset, r.end.offset)
}

struct Node {
    what: String,
    full: (usize, usize),
    inner: Vec<(String, (usize, usize))>,
    children: Vec<Node>,
}

fn ty_node(t: &ast::Type, what: String) -> Node {
    Node {
        inner: vec![(format!("{what}.symbol"), off(&t.symbol_range))],
        full: off(&t.full_range),
        children: t
            .generic_types
            .iter()
            .enumerate()
            .map(|(i, g)| ty_node(g, format!("{what}.g{i}")))
            .collect(),
        what,
    }
}

fn const_node(c: &ast::Const, what: String) -> Node {
    Node {
        inner: vec![(format!("{what}.symbol"), off(&c.symbol_range))],
        full: off(&c.full_range),
        children: vec![ty_node(&c.const_type, format!("{what}.type"))],
        what,
    }
}

fn item_node(a: &ast::Aidl) -> Node {
    let mut children = Vec::new();
    match &a.item {
        ast::Item::Interface(it) => {
            for (i, e) in it.elements.iter().enumerate() {
                let p = format!("m{i}");
                match e {
                    ast::InterfaceElement::Method(m) => {
                        let mut ch = vec![ty_node(&m.return_type, format!("{p}.ret"))];
                        for (j, arg) in m.args.iter().enumerate() {
                            let ap = format!("{p}.a{j}");
                            let mut inner = vec![(format!("{ap}.symbol"), off(&arg.symbol_range))];
                            match &arg.direction {
                                ast::Direction::In(r)
                                | ast::Direction::Out(r)
                                | ast::Direction::InOut(r) => {
                                    inner.push((format!("{ap}.direction"), off(r)))
                                }
                                _ => {}
                            }
                            ch.push(Node {
                                inner,
                                full: off(&arg.full_range),
                                children: vec![ty_node(&arg.arg_type, format!("{ap}.type"))],
                                what: ap,
                            });
                        }
                        children.push(Node {
                            inner: vec![
                                (format!("{p}.symbol"), off(&m.symbol_range)),
                                (format!("{p}.oneway"), off(&m.oneway_range)),
                                (format!("{p}.transact_code"), off(&m.transact_code_range)),
                            ],
                            full: off(&m.full_range),
                            children: ch,
                            what: p,
                        });
                    }
                    ast::InterfaceElement::Const(c) => children.push(const_node(c, p)),
                }
            }
        }
        ast::Item::Parcelable(it) => {
            for (i, e) in it.elements.iter().enumerate() {
                let p = format!("m{i}");
                match e {
                    ast::ParcelableElement::Field(f) => children.push(Node {
                        inner: vec![(format!("{p}.symbol"), off(&f.symbol_range))],
                        full: off(&f.full_range),
                        children: vec![ty_node(&f.field_type, format!("{p}.type"))],
                        what: p,
                    }),
                    ast::ParcelableElement::Const(c) => children.push(const_node(c, p)),
                }
            }
        }
        ast::Item::Enum(it) => {
            for (i, e) in it.elements.iter().enumerate() {
                let p = format!("e{i}");
                children.push(Node {
                    inner: vec![(format!("{p}.symbol"), off(&e.symbol_range))],
                    full: off(&e.full_range),
                    children: vec![],
                    what: p,
                });
            }
        }
    }
    Node {
        what: "item".into(),
        inner: vec![("item.symbol".into(), off(a.item.get_symbol_range()))],
        full: off(a.item.get_full_range()),
        children,
    }
}

fn check_node(n: &Node, errs: &mut Vec<String>) {
    for (w, r) in &n.inner {
        if r.0 < n.full.0 || r.1 > n.full.1 {
            errs.push(format!(
                "{w} {:?} is not inside the full range {:?} of {}",
                r, n.full, n.what
            ));
        }
    }
    let mut prev: Option<&Node> = None;
    for c in &n.children {
        if c.full.0 < n.full.0 || c.full.1 > n.full.1 {
            errs.push(format!(
                "full range {:?} of {} is not inside the full range {:?} of its parent {}",
                c.full, c.what, n.full, n.what
            ));
        }
        if let Some(p) = prev {
            if p.full.1 > c.full.0 {
                errs.push(format!(
                    "sibling ranges overlap or are out of order: {} {:?} then {} {:?}",
                    p.what, p.full, c.what, c.full
                ));
            }
        }
        prev = Some(c);
        check_node(c, errs);
    }
}

/// Well-formedness of every range in a tree + nesting / sibling order (any input).
pub fn check_tree_ranges(text: &str, a: &ast::Aidl, errs: &mut Vec<String>) {
    let mut all_ok = true;
    for (what, r) in all_ranges(a) {
        if !check_range(text, &r, &what, errs) {
            all_ok = false;
        }
    }
    if !all_ok {
        return;
    }
    // header: package, imports, declarations, item in increasing, disjoint order
    let mut seq: Vec<(String, (usize, usize), (usize, usize))> = vec![(
        "package".into(),
        off(&a.package.full_range),
        off(&a.package.symbol_range),
    )];
    for (i, im) in a.imports.iter().enumerate() {
        seq.push((format!("import{i}"), off(&im.full_range), off(&im.symbol_range)));
    }
    for (i, im) in a.declared_parcelables.iter().enumerate() {
        seq.push((format!("decl{i}"), off(&im.full_range), off(&im.symbol_range)));
    }
    for (w, full, sym) in &seq {
        if sym.0 < full.0 || sym.1 > full.1 {
            errs.push(format!("{w}: name range {:?} not inside full range {:?}", sym, full));
        }
    }
    seq.push((
        "item".into(),
        off(a.item.get_full_range()),
        off(a.item.get_symbol_range()),
    ));
    for w in seq.windows(2) {
        if w[0].1 .1 > w[1].1 .0 {
            errs.push(format!(
                "sibling ranges overlap or are out of order: {} {:?} then {} {:?}",
                w[0].0, w[0].1, w[1].0, w[1].1
            ));
        }
    }
    check_node(&item_node(a), errs);
}
