//! C07 — argument direction rules follow the argument's type category exactly.

use super::semacommon::*;
use super::CheckResult;
use crate::model::doc::*;
use crate::model::gen::leaf;
use crate::model::sema::{Loc, Rec};
use crate::report::{finish, fnv, Case, Stats, Tier};
use serde_json::json;

pub const PROP: &str = "C07";

pub fn category_types() -> Vec<(&'static str, Ty)> {
    vec![
        ("primitive", Ty::prim("int")),
        ("String", Ty::string()),
        ("CharSequence", Ty::charseq()),
        ("array", Ty::array(Ty::prim("int"))),
        ("list", Ty::list(Ty::string())),
        ("map", Ty::map(Ty::string(), Ty::string())),
        ("raw-list", Ty::raw_list()),
        ("raw-map", Ty::raw_map()),
        ("IBinder", leaf("IBinder")),
        ("FileDescriptor", leaf("FileDescriptor")),
        ("ParcelFileDescriptor", leaf("ParcelFileDescriptor")),
        ("ParcelableHolder", leaf("ParcelableHolder")),
        ("interface", leaf("Itf")),
        ("parcelable", leaf("Par")),
        ("enum", leaf("En")),
        ("forward-declared", leaf("Fw")),
        ("unknown-import", leaf("Unk")),
        ("unresolved", leaf("Nope")),
        ("qualified-pfd", leaf("android.os.ParcelFileDescriptor")),
        ("array-of-parcelable", Ty::array(leaf("Par"))),
        // a qualified name that equals a *qualified* forward declaration stays unresolved
        ("qualified-declared-name", leaf("a.b.Payload")),
    ]
}

const DIRS: [Option<&str>; 4] = [None, Some("in"), Some("out"), Some("inout")];

pub fn support() -> Vec<ProjFile> {
    support_rot(false)
}

/// `rot`: the same keys with rotated kinds (t.Itf a parcelable, t.Par an enum, t.En an interface)
/// - the category of a name is a fact of the project at hand, not of the name: anything that
/// remembers "t.Par is a parcelable" from an earlier project, parser or call is wrong here
pub fn support_rot(rot: bool) -> Vec<ProjFile> {
    // a "mirror" file uses the same simple names for items of other kinds (imports and
    // forward declarations are per file: nothing of it may leak into the observed file)
    let mut mirror = Item::new(ItemKind::Interface, "Mirror");
    mirror.members.push(Member::Method(Method::new(
        Ty::void(),
        "m",
        vec![
            Arg::new(Some("in"), leaf("Itf"), Some("a")),
            Arg::new(None, leaf("Par"), Some("b")),
            Arg::new(Some("in"), leaf("En"), Some("c")),
            Arg::new(None, leaf("Fw"), Some("d")),
            Arg::new(Some("in"), leaf("Unk"), Some("e")),
            Arg::new(Some("in"), leaf("Nope"), Some("f")),
        ],
    )));
    // the mirror is a `oneway interface` whose methods carry codes and out arguments: whatever
    // a pass remembers from this file (oneway-ness, codes, names, directions) must not reach the
    // observed file when the mirror happens to be processed first
    mirror.oneway = true;
    let mut m2 = Method::new(Ty::prim("int"), "m", vec![Arg::new(Some("out"), Ty::array(Ty::prim("int")), Some("a"))]);
    m2.code = Some("1".into());
    mirror.members.push(Member::Method(m2));
    let mut m3 = Method::new(Ty::void(), "f0", vec![]);
    m3.code = Some("1".into());
    m3.oneway = true;
    mirror.members.push(Member::Method(m3));
    let mut md = Document::new("z", mirror);
    for i in ["z.Itf", "z.Par", "z.En", "z.Fw", "z.Nope"] {
        md.imports.push(Import::new(i));
    }
    md.decls.push(Decl::new("Unk"));
    vec![
        ProjFile::from_doc("itf", Document::new("t", Item::new(if rot { ItemKind::Parcelable } else { ItemKind::Interface }, "Itf"))),
        ProjFile::from_doc("par", Document::new("t", Item::new(if rot { ItemKind::Enum } else { ItemKind::Parcelable }, "Par"))),
        ProjFile::from_doc("en", Document::new("t", Item::new(if rot { ItemKind::Interface } else { ItemKind::Enum }, "En"))),
        ProjFile::from_doc("z-itf", Document::new("z", Item::new(ItemKind::Parcelable, "Itf"))),
        ProjFile::from_doc("z-par", Document::new("z", Item::new(ItemKind::Enum, "Par"))),
        ProjFile::from_doc("z-en", Document::new("z", Item::new(ItemKind::Interface, "En"))),
        ProjFile::from_doc("z-fw", Document::new("z", Item::new(ItemKind::Enum, "Fw"))),
        ProjFile::from_doc("z-nope", Document::new("z", Item::new(ItemKind::Parcelable, "Nope"))),
        ProjFile::from_doc("mirror", md),
    ]
}

pub fn observed_header(item: Item) -> Document {
    let mut d = Document::new("obs", item);
    for i in ["t.Itf", "t.Par", "t.En", "u.Unk"] {
        d.imports.push(Import::new(i));
    }
    d.decls.push(Decl::new("Fw"));
    d.decls.push(Decl::new("a.b.Payload"));
    d
}

/// cells: (category index, direction index)
fn arg_of(cell: usize, cats: &[(&'static str, Ty)], name: Option<&str>) -> Arg {
    let c = cell / 4;
    let d = cell % 4;
    Arg::new(DIRS[d], cats[c].1.clone(), name)
}

fn make_case(arg_lists: &[Vec<usize>], iface_oneway: bool, method_oneway_mask: usize, const_at: Option<usize>, label: String) -> Case {
    let cats = category_types();
    let mut item = Item::new(ItemKind::Interface, "Obs");
    item.oneway = iface_oneway;
    for (i, cells) in arg_lists.iter().enumerate() {
        if const_at == Some(i) {
            item.members.push(Member::Const(Const::new(
                Ty::prim("int"),
                "K",
                Value::Scalar(Scalar::Integer("1".into())),
            )));
        }
        let args: Vec<Arg> = cells
            .iter()
            .enumerate()
            .map(|(j, c)| arg_of(*c, &cats, if (i + j) % 2 == 0 { Some("a") } else { None }))
            .enumerate()
            .map(|(j, mut a)| {
                if a.name.is_some() {
                    a.name = Some(format!("a{j}"));
                }
                // in one variant all arguments of a method are named, with one and the same name
                if const_at == Some(1) {
                    a.name = Some("same".to_string());
                }
                // every third argument carries an annotation (between direction and type)
                if (i + 2 * j) % 3 == 0 {
                    a.annots.push(Annot::simple("@nullable"));
                }
                a
            })
            .collect();
        // in the "constant before member" variants all methods of a file share one name
        let mname = if const_at.is_some() && const_at != Some(0) { "same".to_string() } else { format!("m{i}") };
        let mut m = Method::new(Ty::void(), &mname, args);
        m.oneway = (method_oneway_mask >> (i % 16)) & 1 == 1;
        // data values: in the "constant first" variant every method carries a large explicit
        // transact code (around 2^24, 2^31 and 2^32 - all legal u32 values, all distinct)
        if const_at == Some(0) {
            m.code = Some(match i % 3 {
                0 => format!("{}", 16777215u64 + i as u64),
                1 => format!("{}", 4294967295u64 - i as u64),
                _ => format!("{}", 2147483648u64 + i as u64),
            });
        }
        item.members.push(Member::Method(m));
    }
    let mut files = support_rot(method_oneway_mask == 0xaaaa);
    let mut header = observed_header(item);
    if const_at == Some(2) {
        // data values: project items, an unknown import and a forward declaration that are
        // *named like built-ins* follow the rules of their own category, not the built-in's
        header.imports.push(Import::new("lib.FileDescriptor"));
        header.imports.push(Import::new("lib.ParcelFileDescriptor"));
        header.imports.push(Import::new("lib.IBinder"));
        header.decls.push(Decl::new("ParcelableHolder"));
        files.push(ProjFile::from_doc("lib-fd", Document::new("lib", Item::new(ItemKind::Parcelable, "FileDescriptor"))));
        files.push(ProjFile::from_doc("lib-ibinder", Document::new("lib", Item::new(ItemKind::Enum, "IBinder"))));
    }
    files.push(ProjFile::from_doc_styled("obs", header, method_oneway_mask == 0x5555));
    let oi = files.len() - 1;
    let exp = expect_observed(&files, oi);
    let doc = files[oi].doc.as_ref().unwrap();
    let r = files[oi].rendered.as_ref().unwrap();
    // regions: every direction keyword, and the empty range at every argument type's start
    let mut regions = Vec::new();
    for m in &doc.item.members {
        if let Member::Method(mm) = m {
            for a in &mm.args {
                if a.dir.is_some() {
                    regions.push(Loc::exact(r.start(a.dir_tok), r.end(a.dir_tok)));
                }
                let s = r.start(a.ty.sym.first);
                regions.push(Loc::exact(s, s));
            }
        }
    }
    let recs: Vec<Rec> = exp
        .recs
        .iter()
        .filter(|x| regions.iter().any(|g| g.admits(x.anchor.lo, x.anchor.hi)))
        .cloned()
        .collect();
    let expect = expect_json(&exp, &recs, &regions, "obs");
    Case {
        prop: PROP.into(),
        kind: "direction-table".into(),
        label,
        files: files.iter().map(|f| (f.id.clone(), f.text.clone())).collect(),
        expect,
    }
}

pub fn check_case(case: &Case) -> CheckResult {
    let mut r = check_region_case(case, false, true);
    if let Some(recs) = case.expect["recs"].as_array() {
        for x in recs {
            r.outcomes.push(format!("class:{}", x["class"].as_str().unwrap_or("")));
        }
    }
    r
}

pub fn run(tier: Tier, seed: u64) -> i32 {
    let stats = Stats::new(PROP, tier, seed);
    let cats = category_types();
    let ncell = cats.len() * 4;
    // all ordered pairs of cells, packed 16 methods per interface, x interface oneway x
    // alternating method oneway patterns
    let pairs = ncell * ncell;
    let per = 16;
    let nfiles = (pairs + per - 1) / per;
    let masks = [0usize, 0xffff, 0xaaaa, 0x5555];
    let n = nfiles * 2 * masks.len() * 2;
    super::drive(
        &stats,
        n,
        1,
        |i| {
            let const_at = if i % 2 == 1 { Some((i / 2) % 3) } else { None };
            let i = i / 2;
            let mask = masks[i % masks.len()];
            let io = (i / masks.len()) % 2 == 1;
            let f = i / (masks.len() * 2);
            let lists: Vec<Vec<usize>> = (f * per..((f + 1) * per).min(pairs))
                .map(|p| vec![p / ncell, p % ncell])
                .collect();
            for l in &lists {
                stats.nontrivial(fnv(&format!("{l:?}{io}{}{const_at:?}", mask)));
            }
            let c = make_case(
                &lists,
                io,
                mask,
                const_at,
                format!("pairs {}..{} interface_oneway={io} method_oneway_mask={mask:#x} constant_before_member={const_at:?}", f * per, (f + 1) * per),
            );
            if i % 997 == 0 {
                stats.sample(json!({"label": c.label, "observed_file": c.files.last().unwrap().1}));
            }
            Some(c)
        },
        check_case,
    );
    stats.space(json!({"space": "ordered pairs of (category, direction) cells", "categories": cats.iter().map(|c| c.0).collect::<Vec<_>>(), "cells": ncell, "pairs": pairs, "methods_per_file": per, "oneway_combinations": 8, "with_and_without_a_constant_before_a_member": true}));
    // unpacked singles: one argument per file
    super::drive(
        &stats,
        ncell * 4 * 3,
        1,
        |i| {
            let const_at = [None, Some(0), Some(2)][i % 3];
            let i = i / 3;
            let cell = i / 4;
            let io = i % 2 == 1;
            let mo = (i / 2) % 2 == 1;
            stats.nontrivial(fnv(&format!("single{cell}{io}{mo}{const_at:?}")));
            Some(make_case(
                &[vec![cell]],
                io,
                if mo { 0xffff } else { 0 },
                const_at,
                format!("single category={} direction={:?} interface_oneway={io} method_oneway={mo} constant_first={}", cats[cell / 4].0, DIRS[cell % 4], const_at.is_some()),
            ))
        },
        check_case,
    );
    stats.space(json!({"space": "unpacked singles", "cases": ncell * 4}));
    if tier == Tier::Thorough {
        // triples over a core of categories
        // all 20 categories x 4 directions
        let core: Vec<usize> = (0..ncell).collect();
        let nt = core.len().pow(3);
        let nf = (nt + per - 1) / per;
        super::drive(
            &stats,
            nf * 2,
            1,
            |i| {
                let io = i % 2 == 1;
                let f = i / 2;
                let lists: Vec<Vec<usize>> = (f * per..((f + 1) * per).min(nt))
                    .map(|p| {
                        vec![
                            core[p / (core.len() * core.len())],
                            core[(p / core.len()) % core.len()],
                            core[p % core.len()],
                        ]
                    })
                    .collect();
                for l in &lists {
                    stats.nontrivial(fnv(&format!("{l:?}{io}")));
                }
                Some(make_case(&lists, io, 0xaaaa, Some(f % 4), format!("triples {}.. interface_oneway={io}", f * per)))
            },
            check_case,
        );
        stats.space(json!({"space": "all ordered triples of cells", "triples": nt}));
    }
    let classes = ["direction-required", "in-or-none", "in-or-inout", "never-an-argument", "oneway-out"];
    let all = classes.iter().all(|c| stats.outcome_count(&format!("class:{c}")) > 0);
    finish(
        &stats,
        "every ordered pair of (type category, direction) cells over 21 category representatives (all categories the statement constrains, reached through real resolution with three supporting files; every third argument annotated; also with all methods of a file sharing one name) x interface oneway x method oneway patterns, plus every cell alone and (thorough) all ordered triples of cells; the Errors located on direction keywords / at argument type starts are compared with the statement's table; distinct_nontrivial counts distinct (argument list, oneway) combinations",
        &[
            "category table transcribed from the statement; `void` arguments are excluded (statement silent)",
            "Errors are located by range: the direction keyword, or the empty range at the type's first token",
        ],
        &|c| check_case(c).to_result(),
        &[("every rule of the table fires", all)],
    )
}

pub fn replay(case: &Case) -> Result<(), String> {
    check_case(case).to_result()
}
