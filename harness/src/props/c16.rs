//! C16 — pointing at a name finds the symbol that carries it.

use super::astproj::line_col_of;
use super::c15::{traversal_space, triple, Triple, LEVELS};
use super::docspace::{DocSpace, Lay};
use super::{run_files, CheckResult};
use crate::model::layout::Layout;
use crate::model::traverse::{at_level, reference_symbols, RefSym};
use crate::report::{finish, fnv, Case, Stats, Tier};
use aidl_parser::traverse;
use serde_json::json;

pub const PROP: &str = "C16";

fn contains(start: (usize, usize), end: (usize, usize), p: (usize, usize)) -> bool {
    start <= p && p <= end
}

pub fn check_case(case: &Case) -> CheckResult {
    let mut r = CheckResult::default();
    let text = &case.files[0].1;
    let obs = match run_files(&case.files) {
        Ok(o) => o,
        Err(p) => {
            r.fail(format!("library panicked: {p}"));
            return r;
        }
    };
    let tree = match &obs.valid[&case.files[0].0].ast {
        Some(t) => t,
        None => {
            r.fail("no tree for a well-formed document".into());
            return r;
        }
    };
    let mut all: Vec<RefSym> = serde_json::from_value(case.expect["symbols"].clone()).unwrap_or_default();
    // unnamed arguments: no statement pins their (empty) name range, so the reported one is taken
    {
        let mut reported: Vec<(usize, usize)> = Vec::new();
        traverse::walk_args(tree, |_, a| reported.push((a.symbol_range.start.offset, a.symbol_range.end.offset)));
        let mut k = 0;
        for s in all.iter_mut().filter(|s| s.kind == "Arg") {
            if let Some(r) = reported.get(k) {
                if s.name.is_none() && r.0 <= text.len() && r.1 <= text.len() && text.is_char_boundary(r.0) && text.is_char_boundary(r.1) {
                    s.start = r.0;
                    s.end = r.1;
                }
            }
            k += 1;
        }
    }
    // every position of the document: each character, one past each line end, column + 5,
    // line 0 and last + 1
    let mut positions: Vec<(usize, usize)> = Vec::new();
    let lines: Vec<&str> = text.split('\n').collect();
    for (li, _) in lines.iter().enumerate() {
        let line_start: usize = lines[..li].iter().map(|l| l.len() + 1).sum();
        let mut cols = std::collections::BTreeSet::new();
        for (o, _) in lines[li].char_indices() {
            cols.insert(line_col_of(text, line_start + o).1);
        }
        let endcol = line_col_of(text, line_start + lines[li].len()).1;
        cols.insert(endcol);
        cols.insert(endcol + 1);
        cols.insert(endcol + 5);
        cols.insert(0);
        for c in cols {
            positions.push((li + 1, c));
        }
    }
    positions.push((0, 1));
    positions.push((0, 0));
    positions.push((lines.len() + 1, 1));
    let mut errs = Vec::new();
    let mut hits = 0u64;
    for (filter, lvl, lname) in LEVELS {
        let syms = at_level(&all, lvl);
        let spans: Vec<((usize, usize), (usize, usize))> = syms
            .iter()
            .map(|s| (line_col_of(text, s.start), line_col_of(text, s.end)))
            .collect();
        for p in &positions {
            let want: Option<Triple> = syms
                .iter()
                .zip(spans.iter())
                .find(|(_, sp)| contains(sp.0, sp.1, *p))
                .map(|(s, _)| super::c15::rtriple(s));
            let got = traverse::find_symbol_at_line_col(tree, filter, *p).as_ref().map(triple);
            if want.is_some() {
                hits += 1;
            }
            if got != want && errs.len() < 5 {
                errs.push(format!(
                    "find_symbol_at_line_col({lname}, {:?}) = {:?}, expected {:?}",
                    p, got, want
                ));
            }
        }
    }
    r.outcomes.push("documents".into());
    r.nontrivial = Some(fnv(text));
    r.sample = None;
    if hits == 0 {
        r.fail("MACHINERY: no position hit any symbol".into());
    }
    for e in errs {
        r.fail(e);
    }
    r
}

fn space(tier: Tier) -> DocSpace {
    // layouts with line breaks and multi-byte text before and inside names
    let mut s = DocSpace::new();
    let base = traversal_space(tier, Lay::Default);
    let fillers: Vec<&str> = match tier {
        Tier::Quick => vec![" ", "\n", " /* é😀 */ "],
        Tier::Thorough => vec![" ", "\n", " /* é😀 */ ", "\r\n", "\n /* \u{a0}e\u{301} */\u{a0}\n", "\t", " //c\n  "],
    };
    for e in base.entries {
        let mut layouts = Vec::new();
        for f in &fillers {
            layouts.push(Layout {
                name: format!("uniform {f:?}"),
                dev: vec![],
                base: if *f == " " { None } else { Some(f.to_string()) },
            });
        }
        // the default layout shifted by leading blank lines and indentation (equal after trim())
        layouts.push(Layout {
            name: "default after leading blank lines".into(),
            dev: vec![(0, "\n\n \t".to_string())],
            base: None,
        });
        let n = layouts.len();
        s.entries.push(super::docspace::DocEntry {
            family: e.family,
            label: e.label,
            doc: e.doc,
            toks: e.toks,
            layouts,
        });
        s.n += n;
    }
    s.reindex();
    s
}

pub fn run(tier: Tier, seed: u64) -> i32 {
    let stats = Stats::new(PROP, tier, seed);
    let sp = space(tier);
    eprintln!("  C16 space: {} document x layout cases", sp.n);
    super::drive(
        &stats,
        sp.n,
        1,
        |i| {
            let (e, l, rendered) = sp.get(i);
            let syms = reference_symbols(&e.doc, &rendered);
            // positions queried: about (chars + 4 per line) x 3 levels
            stats
                .transitions
                .fetch_add((rendered.text.chars().count() * 3) as u64, std::sync::atomic::Ordering::Relaxed);
            stats.outcome(&format!("family:{}", e.family));
            if i % 1499 == 0 {
                stats.sample(json!({"document": e.label, "layout": l.name, "text": rendered.text}));
            }
            Some(Case {
                prop: PROP.into(),
                kind: e.family.into(),
                label: format!("{} @ {}", e.label, l.name),
                files: vec![("f".into(), rendered.text)],
                expect: json!({"symbols": syms}),
            })
        },
        check_case,
    );
    for (f, docs, cases) in sp.family_counts() {
        stats.space(json!({"family": f, "documents": docs, "document_x_layout_cases": cases}));
    }
    finish(
        &stats,
        "documents of the C15 families in layouts with line breaks and multi-byte text before and inside names (qualified names split over lines) x every (line, column) of the document (each character, one and five past each line end, column 0, line 0 and last+1) x 3 filter levels: find_symbol_at_line_col must return the first symbol in reference order whose expected name span (token table -> line/column) contains the position, inclusive at both ends, or nothing; distinct_nontrivial counts distinct source texts; transitions counts positions queried",
        &["expected spans come from the token table; line/column from grapheme clusters (unicode-segmentation)"],
        &|c| check_case(c).to_result(),
        &[("documents were explored", stats.states.load(std::sync::atomic::Ordering::Relaxed) > 100)],
    )
}

pub fn replay(case: &Case) -> Result<(), String> {
    check_case(case).to_result()
}
