//! E-DOC x E-INJ: the well-formed document x layout space shared by C02, C04, C15, C16, C19.

use crate::model::doc::{emit, Document, ItemKind, Rendered, Tok};
use crate::model::gen;
use crate::model::layout::{self, Layout, FILLERS};
use crate::model::seeds;
use crate::report::Tier;

pub struct DocEntry {
    pub family: &'static str,
    pub label: String,
    pub doc: Document,
    pub toks: Vec<Tok>,
    pub layouts: Vec<Layout>,
}

pub struct DocSpace {
    pub entries: Vec<DocEntry>,
    offsets: Vec<usize>,
    pub n: usize,
}

#[derive(Clone, Copy, PartialEq)]
pub enum Lay {
    /// default layout only
    Default,
    /// default + minimal
    DefMin,
    /// default, minimal, every uniform filler
    Base,
    /// Base + every single-gap deviation
    D1,
    /// D1 + every two-gap deviation over a reduced filler set
    D2Small,
    /// D1 + every two-gap deviation over all fillers
    D2Full,
}

const SMALL_FILLERS: [&str; 6] = ["", "\n", "\r\n", "/*c*/", "//c\n", "\u{a0}"];

impl DocSpace {
    pub fn new() -> DocSpace {
        DocSpace {
            entries: Vec::new(),
            offsets: vec![0],
            n: 0,
        }
    }
    pub fn add(&mut self, family: &'static str, label: String, mut doc: Document, lay: Lay) {
        let toks = emit(&mut doc);
        let mut layouts = match lay {
            Lay::Default => vec![Layout {
                name: "default".into(),
                dev: vec![],
                base: None,
            }],
            Lay::DefMin => layout::base_layouts(&[]),
            _ => layout::base_layouts(&FILLERS),
        };
        if matches!(lay, Lay::D1 | Lay::D2Small | Lay::D2Full) {
            layouts.extend(layout::one_deviation(&toks, &FILLERS));
        }
        if lay == Lay::D2Small {
            layouts.extend(layout::two_deviations(&toks, &SMALL_FILLERS));
        }
        if lay == Lay::D2Full {
            layouts.extend(layout::two_deviations(&toks, &FILLERS));
        }
        self.n += layouts.len();
        self.offsets.push(self.n);
        self.entries.push(DocEntry {
            family,
            label,
            doc,
            toks,
            layouts,
        });
    }
    /// recompute the index after editing `entries` directly
    pub fn reindex(&mut self) {
        self.offsets = vec![0];
        let mut n = 0;
        for e in &self.entries {
            n += e.layouts.len();
            self.offsets.push(n);
        }
        self.n = n;
    }
    pub fn add_all(&mut self, family: &'static str, docs: Vec<Document>, lay: Lay) {
        for (i, d) in docs.into_iter().enumerate() {
            self.add(family, format!("{family}#{i}"), d, lay);
        }
    }
    /// case i -> (entry, layout, rendered text)
    pub fn get(&self, i: usize) -> (&DocEntry, &Layout, Rendered) {
        let e = match self.offsets.binary_search(&i) {
            Ok(p) => p,
            Err(p) => p - 1,
        };
        // skip empty entries that share an offset
        let mut e = e;
        while self.offsets[e + 1] <= i {
            e += 1;
        }
        let entry = &self.entries[e];
        let l = &entry.layouts[i - self.offsets[e]];
        (entry, l, layout::render(&entry.toks, l))
    }
    pub fn family_counts(&self) -> Vec<(String, usize, usize)> {
        let mut v: Vec<(String, usize, usize)> = Vec::new();
        for e in &self.entries {
            if let Some(x) = v.iter_mut().find(|x| x.0 == e.family) {
                x.1 += 1;
                x.2 += e.layouts.len();
            } else {
                v.push((e.family.to_string(), 1, e.layouts.len()));
            }
        }
        v
    }
}

/// The C02 / C04 document x layout space.
pub fn c02_space(tier: Tier) -> DocSpace {
    let mut s = DocSpace::new();
    let q = tier == Tier::Quick;
    // seeds
    for (name, d) in seeds::all() {
        let small = name.starts_with("min_");
        let lay = if small {
            if q { Lay::D2Small } else { Lay::D2Full }
        } else if q {
            Lay::D1
        } else {
            Lay::D2Small
        };
        s.add("seed", format!("seed:{name}"), d, lay);
    }
    // types, packed 20 per file in the four positions
    let depth = if q { 3 } else { 4 };
    let mut types = gen::chain_types(&gen::TYPE_LEAVES, depth);
    types.extend(gen::binary_maps(&gen::TYPE_LEAVES));
    for pos in 0..4 {
        s.add_all(
            "types-packed",
            gen::docs_for_types(&types, 20, pos),
            Lay::Base,
        );
    }
    // unpacked at the next smaller bound
    let types_small = gen::chain_types(&gen::TYPE_LEAVES, if q { 1 } else { 2 });
    for pos in 0..4 {
        s.add_all(
            "types-unpacked",
            gen::docs_for_types(&types_small, 1, pos),
            if q { Lay::DefMin } else { Lay::Base },
        );
    }
    // member sequences
    let mlen = if q { 2 } else { 3 };
    for kind in [ItemKind::Interface, ItemKind::Parcelable, ItemKind::Enum] {
        for d in gen::docs_for_member_sequences(kind, mlen) {
            let nm = d.item.members.len() + d.item.elems.len();
            let lay = if nm <= 1 || (!q && nm <= 2) { Lay::D1 } else { Lay::Base };
            s.add("members", format!("members:{kind:?}:{nm}"), d, lay);
        }
    }
    s.add_all("arguments", gen::docs_for_argument_lists(), if q { Lay::DefMin } else { Lay::Base });
    s.add_all("values", gen::docs_for_values(), Lay::Base);
    s.add_all("annotations", gen::docs_for_annotations(), Lay::Base);
    s.add_all("known-annotations", gen::docs_for_known_annotations(), Lay::DefMin);
    s.add_all("headers", gen::docs_for_headers(), if q { Lay::DefMin } else { Lay::Base });
    s.add_all("names", gen::docs_for_names(), Lay::Base);
    s.add_all("foreign-words", gen::docs_for_foreign_words(), Lay::DefMin);
    s.add_all("sizes", gen::docs_for_sizes(), Lay::Base);
    s
}
