//! C14 — a malformed member costs only itself: siblings survive, the error is local.

use super::astproj::{proj_enum_element, proj_interface_element, proj_parcelable_element};
use super::{is_error, run_files, CheckResult};
use crate::engine::{seq_at, seq_total};
use crate::model::doc::*;
use crate::model::grammar::is_member;
use crate::model::lex::{Kind, ALL_KINDS};
use crate::model::proj::{proj_enum_elem, proj_member};
use crate::report::{finish, fnv, Case, Stats, Tier};
use aidl_parser::ast;
use serde_json::json;

pub const PROP: &str = "C14";

fn good_members(kind: ItemKind) -> Vec<Member> {
    match kind {
        ItemKind::Interface => {
            let mut m1 = Method::new(Ty::prim("int"), "b", vec![Arg::new(Some("in"), Ty::string(), Some("s"))]);
            m1.code = Some("1".into());
            let mut m2 = Method::new(Ty::void(), "c", vec![Arg::new(None, Ty::prim("int"), Some("x"))]);
            m2.oneway = true;
            vec![
                Member::Method(Method::new(Ty::void(), "a", vec![])),
                Member::Method(m1),
                Member::Const(Const::new(Ty::prim("int"), "K", Value::Scalar(Scalar::Integer("1".into())))),
                Member::Method(m2),
                Member::Method(Method::new(Ty::custom("IBinder"), "d", vec![Arg::new(Some("in"), Ty::custom("ParcelFileDescriptor"), Some("p"))])),
            ]
        }
        _ => vec![
            Member::Field(Field::new(Ty::prim("int"), "a", None)),
            Member::Field(Field::new(Ty::string(), "b", Some(Value::Scalar(Scalar::Str("\"s\"".into()))))),
            Member::Const(Const::new(Ty::prim("int"), "K", Value::Scalar(Scalar::Integer("1".into())))),
            Member::Field(Field::new(Ty::list(Ty::string()), "c", None)),
            Member::Field(Field::new(Ty::array(Ty::custom("IBinder")), "d", None)),
        ],
    }
}

fn good_elems() -> Vec<EnumElem> {
    vec![
        EnumElem::new("A", None),
        EnumElem::new("B", Some(Scalar::Integer("1".into()))),
        EnumElem::new("C", None),
        EnumElem::new("D", Some(Scalar::Str("\"s\"".into()))),
    ]
}

fn alphabet(kind: ItemKind) -> Vec<Kind> {
    ALL_KINDS
        .iter()
        .copied()
        .filter(|k| !matches!(k, Kind::Semi | Kind::LBrace | Kind::RBrace))
        .filter(|k| !(kind == ItemKind::Enum && *k == Kind::Comma))
        .collect()
}

const KINDS: [ItemKind; 3] = [ItemKind::Interface, ItemKind::Parcelable, ItemKind::Enum];

/// Build the case: good siblings (rotated by `rot`) with the bad token string at `position`
/// (0 first, 1 middle, 2 last), followed by the normal terminator.
fn make_case(ki: usize, position: usize, rot: usize, bad: &[Tok], label: String) -> Option<Case> {
    let kind = KINDS[ki];
    let (rot, lay) = (rot % 5, rot / 5);
    // is the string (with its terminator) itself a well-formed member? then it is not in the space
    let mut with_term: Vec<Kind> = bad.iter().map(|t| t.kind).collect();
    with_term.push(if kind == ItemKind::Enum { Kind::Comma } else { Kind::Semi });
    if is_member(ki, &with_term) {
        return None;
    }
    // The member must be detectably malformed by the time its terminator has been read: if the
    // string plus terminator is still a viable prefix of ONE member (e.g. `@A ( x ,` in an enum,
    // where the `,` continues the annotation's parameter list), the member has not ended at that
    // terminator as far as the grammar is concerned - the statement's precondition is not met.
    let start = ["IElem", "PElem", "EnumElemC"][ki];
    if crate::model::grammar::recognise(start, &with_term).first_dead.is_none() {
        return None;
    }
    let mut item = Item::new(kind, "X");
    let goods_n = if position == 1 { 3 } else { 2 };
    if kind == ItemKind::Enum {
        let g = good_elems();
        item.elems = (0..goods_n).map(|i| g[(i + rot) % 4].clone()).collect();
        item.elems_trailing_comma = true;
    } else {
        let g = good_members(kind);
        item.members = (0..goods_n).map(|i| g[(i + rot) % g.len()].clone()).collect();
    }
    let mut doc = Document::new("p", item);
    if kind == ItemKind::Interface && rot % 2 == 1 {
        doc.item.oneway = true;
    }
    let toks = emit(&mut doc);
    let reference_text = layout_default(&toks).text;
    // insertion point (token index) of the bad member
    let before = match position {
        0 => 0,
        1 => 1,
        _ => goods_n,
    };
    let at = if kind == ItemKind::Enum {
        if before < doc.item.elems.len() {
            doc.item.elems[before].first_tok
        } else {
            doc.item.span.last
        }
    } else if before < doc.item.members.len() {
        doc.item.members[before].extent().0
    } else {
        doc.item.span.last
    };
    let mut all: Vec<Tok> = toks[..at].to_vec();
    let bad_first = all.len();
    all.extend(bad.iter().cloned());
    let term = if kind == ItemKind::Enum { Kind::Comma } else { Kind::Semi };
    all.push(Tok {
        kind: term,
        text: term.lexeme().into(),
    });
    let bad_last = all.len() - 1;
    all.extend(toks[at..].iter().cloned());
    let r = match lay {
        0 => layout_default(&all),
        // one statement per line, LF or CRLF
        _ => {
            let eol = if lay == 1 { "\n  " } else { "\r\n\t" };
            crate::model::doc::layout(&all, &|i| {
                if i > 0 && i < all.len() && matches!(all[i - 1].kind, Kind::Semi | Kind::LBrace | Kind::RBrace | Kind::Comma) {
                    Some(eol.to_string())
                } else {
                    None
                }
            })
        }
    };
    let siblings: Vec<String> = if kind == ItemKind::Enum {
        doc.item.elems.iter().map(proj_enum_elem).collect()
    } else {
        doc.item.members.iter().map(|m| proj_member(m, false)).collect()
    };
    Some(Case {
        prop: PROP.into(),
        kind: format!("{kind:?}/position{position}"),
        label,
        files: if (bad.len() + position + rot) % 4 == 0 {
            vec![("f".into(), r.text.clone()), ("twin".into(), r.text.clone())]
        } else {
            vec![("f".into(), r.text.clone())]
        },
        // (see check_case: in some cases a file that collects a diagnostic and then fails fatally
        // is parsed first)
        expect: json!({
            "siblings": siblings,
            "extent": [r.start(bad_first), r.end(bad_last)],
            "reference": reference_text,
        }),
    })
}

pub fn check_case(case: &Case) -> CheckResult {
    let mut r = CheckResult::default();
    // every third case: another parser of this thread first meets a file that collects a
    // recovered-error diagnostic and then fails fatally (whatever it leaves behind must not show
    // up in this case's files)
    if crate::report::fnv(&case.files[0].1) % 3 == 0 {
        let _ = run_files(&[("zz-broken".to_string(), "package z; interface Z { int ; void f() = 99999999999; }\n#".to_string())]);
    }
    let obs = match run_files(&case.files) {
        Ok(o) => o,
        Err(p) => {
            r.fail(format!("library panicked: {p}"));
            return r;
        }
    };
    let pr = &obs.parse[&case.files[0].0];
    // after validation the Error is still there - also when the same text sits in the parser a
    // second time under another id (every fourth case): both files get the same result
    match obs.valid.get(&case.files[0].0) {
        Some(v) => {
            if !v.diagnostics.iter().any(is_error) {
                r.fail("no Error left for the malformed member after validation".into());
            }
            if let Some((gid, _)) = case.files.get(1) {
                match obs.valid.get(gid) {
                    Some(g) => {
                        if g.diagnostics != v.diagnostics || g.ast != v.ast {
                            r.fail(format!(
                                "the same text under a second id ({gid}) comes back with another result: {:?} vs {:?}",
                                g.diagnostics.iter().map(super::diag_str).collect::<Vec<_>>(),
                                v.diagnostics.iter().map(super::diag_str).collect::<Vec<_>>()
                            ));
                        }
                    }
                    None => r.fail(format!("no result for the second id {gid}")),
                }
            }
        }
        None => r.fail("no validated result for the file".into()),
    }
    let lo = case.expect["extent"][0].as_u64().unwrap_or(0) as usize;
    let hi = case.expect["extent"][1].as_u64().unwrap_or(0) as usize;
    let want: Vec<String> = serde_json::from_value(case.expect["siblings"].clone()).unwrap_or_default();
    let errors: Vec<_> = pr.diagnostics.iter().filter(|d| is_error(d)).collect();
    if errors.is_empty() {
        r.fail("no syntax Error reported for the malformed member".into());
    }
    for d in &pr.diagnostics {
        let (s, e) = (d.range.start.offset, d.range.end.offset);
        if s < lo || e > hi {
            r.fail(format!(
                "syntax diagnostic {} lies outside the malformed member's extent {:?}",
                super::diag_str(d),
                (lo, hi)
            ));
        }
    }
    r.outcomes.push(format!("syntax-errors:{}", errors.len().min(4)));
    let tree = match &pr.ast {
        Some(t) => t,
        None => {
            r.fail("no tree: the malformed member took the whole item with it".into());
            return r;
        }
    };
    // returned members: (projection, full range)
    let got: Vec<(String, (usize, usize))> = match &tree.item {
        ast::Item::Interface(i) => i
            .elements
            .iter()
            .map(|e| {
                let fr = match e {
                    ast::InterfaceElement::Method(m) => &m.full_range,
                    ast::InterfaceElement::Const(c) => &c.full_range,
                };
                (proj_interface_element(e), (fr.start.offset, fr.end.offset))
            })
            .collect(),
        ast::Item::Parcelable(p) => p
            .elements
            .iter()
            .map(|e| {
                let fr = match e {
                    ast::ParcelableElement::Field(f) => &f.full_range,
                    ast::ParcelableElement::Const(c) => &c.full_range,
                };
                (proj_parcelable_element(e), (fr.start.offset, fr.end.offset))
            })
            .collect(),
        ast::Item::Enum(e) => e
            .elements
            .iter()
            .map(|el| (proj_enum_element(el), (el.full_range.start.offset, el.full_range.end.offset)))
            .collect(),
    };
    let mut next = 0;
    let mut extras = 0;
    for (p, fr) in &got {
        let inside = fr.0 >= lo && fr.1 <= hi;
        if next < want.len() && *p == want[next] && !inside {
            next += 1;
        } else if inside {
            extras += 1; // recovery resynchronised inside the malformed extent
        } else {
            r.fail(format!(
                "unexpected or changed member outside the malformed extent: {p} at {:?} (expected next sibling: {:?})",
                fr,
                want.get(next)
            ));
            break;
        }
    }
    if next < want.len() && r.failures.is_empty() {
        r.fail(format!(
            "well-formed sibling lost: {} (returned members: {:?})",
            want[next],
            got.iter().map(|g| g.0.clone()).collect::<Vec<_>>()
        ));
    }
    if extras > 0 {
        r.outcomes.push("member-recovered-inside-the-malformed-extent".into());
    }
    // the validated tree: every sibling must equal (positions aside) the same member of the
    // validated document without the malformed member (resolved kinds, propagated oneway)
    if let Some(reference) = case.expect["reference"].as_str() {
        if let (Ok(ref_obs), Some(vtree)) = (
            run_files(&[("f".to_string(), reference.to_string())]),
            obs.valid[&case.files[0].0].ast.as_ref(),
        ) {
            if let Some(rtree) = ref_obs.valid["f"].ast.as_ref() {
                let want_sigs = member_signatures(rtree, None);
                let got_sigs = member_signatures(vtree, Some((lo, hi)));
                let mut k = 0;
                for g in &got_sigs {
                    if k < want_sigs.len() && *g == want_sigs[k] {
                        k += 1;
                    }
                }
                if k < want_sigs.len() && r.failures.is_empty() {
                    r.fail(format!(
                        "after validation a well-formed sibling differs from the same member of the document without the malformed member: expected {} ; validated members outside the malformed extent: {:?}",
                        want_sigs[k], got_sigs
                    ));
                }
            }
        }
    }
    r
}

/// Debug rendering of a value with every `Range { .. }` removed
fn strip_ranges(s: &str) -> String {
    let mut out = String::new();
    let b = s.as_bytes();
    let mut i = 0;
    while i < b.len() {
        if s[i..].starts_with("Range {") {
            let mut depth = 0;
            while i < b.len() {
                match b[i] {
                    b'{' => depth += 1,
                    b'}' => {
                        depth -= 1;
                        if depth == 0 {
                            i += 1;
                            break;
                        }
                    }
                    _ => {}
                }
                i += 1;
            }
            out.push_str("Range");
        } else {
            let ch = s[i..].chars().next().unwrap();
            out.push(ch);
            i += ch.len_utf8();
        }
    }
    out
}

/// position-free signatures of the members of a tree (optionally only those outside an extent)
fn member_signatures(a: &ast::Aidl, outside: Option<(usize, usize)>) -> Vec<String> {
    let keep = |fr: &ast::Range| match outside {
        Some((lo, hi)) => !(fr.start.offset >= lo && fr.end.offset <= hi),
        None => true,
    };
    match &a.item {
        ast::Item::Interface(i) => i
            .elements
            .iter()
            .filter(|e| keep(match e {
                ast::InterfaceElement::Method(m) => &m.full_range,
                ast::InterfaceElement::Const(c) => &c.full_range,
            }))
            .map(|e| strip_ranges(&format!("{e:?}")))
            .collect(),
        ast::Item::Parcelable(p) => p
            .elements
            .iter()
            .filter(|e| keep(match e {
                ast::ParcelableElement::Field(f) => &f.full_range,
                ast::ParcelableElement::Const(c) => &c.full_range,
            }))
            .map(|e| strip_ranges(&format!("{e:?}")))
            .collect(),
        ast::Item::Enum(e) => e
            .elements
            .iter()
            .filter(|el| keep(&el.full_range))
            .map(|el| strip_ranges(&format!("{el:?}")))
            .collect(),
    }
}

pub fn run(tier: Tier, seed: u64) -> i32 {
    let stats = Stats::new(PROP, tier, seed);
    // (kind, position, k)
    let mut parts: Vec<(usize, usize, usize)> = Vec::new();
    for ki in 0..3 {
        for pos in 0..3 {
            let k = match tier {
                Tier::Quick => if pos == 1 { 3 } else { 2 },
                Tier::Thorough => if pos == 1 { 4 } else { 3 },
            };
            parts.push((ki, pos, k));
        }
    }
    for (ki, pos, k) in parts {
        let alpha = alphabet(KINDS[ki]);
        let n = seq_total(alpha.len(), k);
        let before = stats.states.load(std::sync::atomic::Ordering::Relaxed);
        super::drive(
            &stats,
            n,
            1,
            |i| {
                let seq = seq_at(i, alpha.len(), k);
                let bad: Vec<Tok> = seq
                    .iter()
                    .map(|d| Tok {
                        kind: alpha[*d],
                        text: alpha[*d].lexeme().into(),
                    })
                    .collect();
                let label = format!(
                    "{:?} position {pos}: [{}]",
                    KINDS[ki],
                    bad.iter().map(|t| t.text.as_str()).collect::<Vec<_>>().join(" ")
                );
                let c = make_case(ki, pos, i % 15, &bad, label)?;
                stats.nontrivial(fnv(&c.files[0].1));
                if i % 9001 == 0 {
                    stats.sample(json!({"label": c.label, "text": c.files[0].1}));
                }
                Some(c)
            },
            check_case,
        );
        let after = stats.states.load(std::sync::atomic::Ordering::Relaxed);
        stats.space(json!({"item": format!("{:?}", KINDS[ki]), "position": (["first", "middle", "last"][pos]), "token_strings_up_to": k, "alphabet": alpha.len(), "enumerated": n, "malformed_members_checked": after - before}));
        eprintln!("  {:?} position {pos} k<={k}: {} cases t={:.1}s", KINDS[ki], after - before, stats.elapsed());
    }
    // fused pairs: two well-formed members with the first terminator forgotten
    let mut fused: Vec<(usize, usize, Vec<Tok>, String)> = Vec::new();
    for ki in 0..3 {
        let forms: Vec<Vec<Tok>> = if KINDS[ki] == ItemKind::Enum {
            good_elems()
                .into_iter()
                .map(|e| {
                    let mut it = Item::new(ItemKind::Enum, "E");
                    it.elems = vec![e];
                    let mut d = Document::new("p", it);
                    let t = emit(&mut d);
                    t[d.item.elems[0].first_tok..=d.item.elems[0].span.last].to_vec()
                })
                .collect()
        } else {
            good_members(KINDS[ki])
                .into_iter()
                .map(|m| {
                    let mut it = Item::new(KINDS[ki], "X");
                    it.members = vec![m];
                    let mut d = Document::new("p", it);
                    let t = emit(&mut d);
                    let (a, b) = d.item.members[0].extent();
                    t[a..b].to_vec()
                })
                .collect()
        };
        for (i, a) in forms.iter().enumerate() {
            for (j, b) in forms.iter().enumerate() {
                for pos in 0..3 {
                    let mut bad = a.clone();
                    // rename to keep names apart from the siblings'
                    bad.extend(b.iter().cloned());
                    fused.push((ki, pos, bad, format!("{:?} position {pos}: members {i} and {j} fused (terminator forgotten)", KINDS[ki])));
                }
            }
        }
    }
    // long malformed members: one token (or a short pattern) repeated up to 24 times
    for ki in 0..3 {
        let pats: Vec<Vec<Kind>> = vec![
            vec![Kind::Primitive],
            vec![Kind::Ident],
            vec![Kind::Primitive, Kind::Ident],
            vec![Kind::Eq],
            vec![Kind::LParen],
            vec![Kind::Annotation],
            vec![Kind::Integer, Kind::Minus],
            vec![Kind::Void, Kind::Ident, Kind::LParen, Kind::RParen],
        ];
        for (pi, pat) in pats.iter().enumerate() {
            if KINDS[ki] == ItemKind::Enum && pat.contains(&Kind::Comma) {
                continue;
            }
            for n in (1..=24).chain([32usize, 40, 48, 64, 96]) {
                let mut bad = Vec::new();
                for j in 0..n {
                    for k in pat {
                        let text = if *k == Kind::Ident { format!("x{j}") } else { k.lexeme().to_string() };
                        bad.push(Tok { kind: *k, text });
                    }
                }
                fused.push((ki, n % 3, bad, format!("{:?}: pattern {pi} repeated {n} times", KINDS[ki])));
            }
        }
    }
    // spelled malformed members: what people coming from Java / C++ / newer AIDL actually write
    // (data values: particular spellings of numbers, identifiers and modifiers)
    let spelled: [(usize, &str); 60] = [
        (0, "void f() = -1"), (0, "void f() = 1.5"), (0, "void f() = 10f"), (0, "void f() = 0x10"), (0, "void f() = +1"),
        (0, "void f() = .5"), (0, "void f() = 1 2"), (0, "void f() = x"), (0, "void f() = \"1\""), (0, "void f() = true"),
        (0, "const int K = 0x1F"), (0, "const int K = 0b101"), (0, "const int K = 1e5"), (0, "const int K = 1_000"),
        (0, "const long K = 10L"), (0, "const int K = 1 << 2"), (0, "const int K = A | B"), (0, "const int K = (int) 1"),
        (0, "const int K = -"), (0, "const int K"), (0, "void f() throws RemoteException"), (0, "public void f()"),
        (0, "static void f()"), (0, "@Override public void f()"), (0, "void f(int... a)"), (0, "void f(final int a)"),
        (0, "void f(int a = 1)"), (0, "void f(int[3] a)"), (0, "void f(in out int a)"), (0, "void f(List<? extends Foo> l)"),
        (0, "oneway oneway void f()"), (0, "void void f()"), (0, "int f"), (0, "f()"), (0, "void f() {}"),
        (1, "int x = 0x1F"), (1, "int x = 0xFF"), (1, "int[3] x"), (1, "final int x = 1"), (1, "static int x"),
        (1, "private int x"), (1, "int x = 1 << 2"), (1, "int x = A | B"), (1, "int x y"), (1, "int = 3"),
        (1, "List<? extends Foo> l"), (1, "Map<String> m = x y"), (1, "int x = 10L"), (1, "int x = 1e5"), (1, "long x = 1_000"),
        (2, "A = 0x10"), (2, "A = 0xFF"), (2, "A = 1 << 2"), (2, "A = B | C"), (2, "A = 10L"),
        (2, "A = 1e5"), (2, "A = -"), (2, "A B"), (2, "A = = 1"), (2, "int A"),
    ];
    for (ki, text) in spelled {
        let lx = crate::model::lex::lex(text);
        if lx.unlexable.is_some() {
            continue;
        }
        let bad: Vec<Tok> = lx
            .toks
            .iter()
            .map(|t| Tok { kind: t.kind, text: text[t.start..t.end].to_string() })
            .collect();
        for pos in 0..3 {
            fused.push((ki, pos, bad.clone(), format!("{:?} position {pos}: spelled member `{text}`", KINDS[ki])));
        }
    }
    let nf = fused.len();
    super::drive(
        &stats,
        nf,
        1,
        |i| {
            let (ki, pos, bad, label) = &fused[i];
            let c = make_case(*ki, *pos, i % 15, bad, label.clone())?;
            stats.nontrivial(fnv(&c.files[0].1));
            Some(c)
        },
        check_case,
    );
    stats.space(json!({"space": "fused pairs of well-formed members (first terminator forgotten), token patterns repeated 1..=24, 32, 40, 48, 64 and 96 times, and 60 spelled Java-isms (hex / suffixed / negative numbers, modifiers, varargs, shifts)", "cases": nf}));
    // how many recoveries one malformed member costs is the implementation's choice (a parser that
    // resynchronises at the terminator reports exactly one): counted in the outcomes, not demanded
    let any = (1..=4).map(|k| stats.outcome_count(&format!("syntax-errors:{k}"))).sum::<u64>();
    finish(
        &stats,
        "item kind (3) x position of the malformed member (first / middle / last among 2-3 well-formed siblings drawn from 4 forms, rotated) x every token string up to the stated length over the vocabulary minus terminators and braces, followed by the normal terminator, kept when the reference grammar says it is not itself a well-formed member; plus all fused pairs of well-formed members; oracle: tree present, siblings intact in order (extra members only inside the malformed extent), at least one syntax Error, every syntax diagnostic inside the malformed member's extent; distinct_nontrivial counts distinct source texts",
        &[
            "membership of a token string in the member language is decided by the Earley recogniser over the transcribed grammar",
            "syntax-stage diagnostics are read through hook H1",
        ],
        &|c| check_case(c).to_result(),
        &[("malformed members with syntax errors occur", any > 0)],
    )
}

pub fn replay(case: &Case) -> Result<(), String> {
    check_case(case).to_result()
}
