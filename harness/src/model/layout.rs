//! E-INJ: layouts of a token list. A layout assigns a filler to every gap (gap i is before
//! token i; gap n after the last token). Default = one space (nothing at the very start/end).

use super::doc::{can_abut, layout, Rendered, Tok};

/// Fillers used as layout deviations ("" only where the neighbours do not fuse).
pub const FILLERS: [&str; 17] = [
    "",
    "  ",
    "\t",
    "\n",
    "\r\n",
    "\u{a0}",
    "/*c*/",
    " /* é */ ",
    "//c\n",
    " //c\r\n",
    "\n/* multi\nline */\n",
    "/**/",
    "/***/",
    " /* a **/ ",
    "\u{2028}",
    " // é日\n  ",
    "//c\r",
];

/// Fillers with adversarial content for totality (C01).
pub const NASTY_FILLERS: [&str; 14] = [
    "\u{a0}",
    "\u{2028}",
    "\r",
    "\r\n",
    " é ",
    "/*é*/",
    "/**é*/",
    "/** 日本 😀 */",
    "/**/",
    "//é\n",
    "/** e\u{301} */\n",
    "/* 👨\u{200d}👩\u{200d}👧 */",
    "/** @x\u{a0}y */",
    "/***/",
];

#[derive(Clone, Debug)]
pub struct Layout {
    pub name: String,
    /// (gap index, filler) deviations from `base`
    pub dev: Vec<(usize, String)>,
    /// None: default single space; Some(f): uniform filler f; "MIN": minimal layout
    pub base: Option<String>,
}

pub fn render(toks: &[Tok], l: &Layout) -> Rendered {
    let n = toks.len();
    layout(toks, &|i| {
        if let Some((_, f)) = l.dev.iter().find(|(g, _)| *g == i || (*g == usize::MAX && i >= n)) {
            return Some(f.clone());
        }
        match &l.base {
            None => None,
            Some(b) if b == "MIN" => {
                if i == 0 || i >= n || can_abut(&toks[i - 1], &toks[i]) {
                    Some(String::new())
                } else {
                    Some(" ".into())
                }
            }
            Some(b) => {
                if i == 0 || i >= n {
                    None
                } else {
                    Some(b.clone())
                }
            }
        }
    })
}

fn filler_ok(toks: &[Tok], gap: usize, f: &str) -> bool {
    if !f.is_empty() {
        return true;
    }
    gap == 0 || gap >= toks.len() || can_abut(&toks[gap - 1], &toks[gap])
}

/// default + minimal + every uniform layout
pub fn base_layouts(fillers: &[&str]) -> Vec<Layout> {
    let mut v = vec![
        Layout {
            name: "default".into(),
            dev: vec![],
            base: None,
        },
        Layout {
            name: "minimal".into(),
            dev: vec![],
            base: Some("MIN".into()),
        },
    ];
    for f in fillers {
        if f.is_empty() {
            continue;
        }
        v.push(Layout {
            name: format!("uniform {f:?}"),
            dev: vec![],
            base: Some(f.to_string()),
        });
    }
    if !fillers.is_empty() {
        // the default layout shifted by leading blank lines / indentation, and with trailing
        // blank lines (texts that are equal after trimming must still get their own offsets)
        v.push(Layout {
            name: "default after leading blank lines".into(),
            dev: vec![(0, "\n\n \t".to_string())],
            base: None,
        });
        v.push(Layout {
            name: "default before trailing blank lines".into(),
            dev: vec![(usize::MAX, "\r\n\n ".to_string())],
            base: None,
        });
    }
    v
}

/// every gap x every filler (one deviation from the default layout)
pub fn one_deviation(toks: &[Tok], fillers: &[&str]) -> Vec<Layout> {
    let mut v = Vec::new();
    for g in 0..=toks.len() {
        for f in fillers {
            if filler_ok(toks, g, f) {
                v.push(Layout {
                    name: format!("gap{g}={f:?}"),
                    dev: vec![(g, f.to_string())],
                    base: None,
                });
            }
        }
    }
    // a line comment as the very last thing of the file, without a line end
    v.push(Layout {
        name: "line comment at end of file without newline".into(),
        dev: vec![(toks.len(), " // end".to_string())],
        base: None,
    });
    v
}

/// every pair of gaps x every pair of fillers (two deviations)
pub fn two_deviations(toks: &[Tok], fillers: &[&str]) -> Vec<Layout> {
    let mut v = Vec::new();
    for g1 in 0..=toks.len() {
        for g2 in (g1 + 1)..=toks.len() {
            for f1 in fillers {
                if !filler_ok(toks, g1, f1) {
                    continue;
                }
                for f2 in fillers {
                    if !filler_ok(toks, g2, f2) {
                        continue;
                    }
                    v.push(Layout {
                        name: format!("gap{g1}={f1:?},gap{g2}={f2:?}"),
                        dev: vec![(g1, f1.to_string()), (g2, f2.to_string())],
                        base: None,
                    });
                }
            }
        }
    }
    v
}
