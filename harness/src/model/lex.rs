//! Reference lexer: the lexical classes of the supported AIDL grammar, transcribed from the
//! documented token classes (DESIGN.md Appendix B). Independent of lalrpop / regex.

#[derive(Clone, Copy, Debug, PartialEq, Eq, Hash, PartialOrd, Ord)]
pub enum Kind {
    Package,
    Import,
    Interface,
    Parcelable,
    Enum,
    Oneway,
    Const,
    Direction,
    Void,
    Primitive,
    StringT,
    CharSequence,
    List,
    Map,
    QuotedString,
    Boolean,
    Annotation,
    Semi,
    Comma,
    LBrace,
    RBrace,
    LParen,
    RParen,
    LBracket,
    RBracket,
    Lt,
    Gt,
    Eq,
    Dot,
    Minus,
    Reserved,
    Ident,
    Integer,
    Float,
}

pub const ALL_KINDS: [Kind; 34] = [
    Kind::Package,
    Kind::Import,
    Kind::Interface,
    Kind::Parcelable,
    Kind::Enum,
    Kind::Oneway,
    Kind::Const,
    Kind::Direction,
    Kind::Void,
    Kind::Primitive,
    Kind::StringT,
    Kind::CharSequence,
    Kind::List,
    Kind::Map,
    Kind::QuotedString,
    Kind::Boolean,
    Kind::Annotation,
    Kind::Semi,
    Kind::Comma,
    Kind::LBrace,
    Kind::RBrace,
    Kind::LParen,
    Kind::RParen,
    Kind::LBracket,
    Kind::RBracket,
    Kind::Lt,
    Kind::Gt,
    Kind::Eq,
    Kind::Dot,
    Kind::Minus,
    Kind::Reserved,
    Kind::Ident,
    Kind::Integer,
    Kind::Float,
];

pub const RESERVED_WORDS: [&str; 33] = [
    "break", "case", "catch", "char", "class", "continue", "default", "do", "double", "else",
    "enum", "false", "float", "for", "goto", "if", "int", "long", "new", "private", "protected",
    "public", "return", "short", "static", "switch", "this", "throw", "true", "try", "void",
    "volatile", "while",
];

pub const PRIMITIVES: [&str; 8] = [
    "byte", "short", "int", "long", "float", "double", "boolean", "char",
];

/// Keyword / literal words of the first token block (never identifiers).
pub fn keyword_kind(word: &str) -> Option<Kind> {
    Some(match word {
        "package" => Kind::Package,
        "import" => Kind::Import,
        "interface" => Kind::Interface,
        "parcelable" => Kind::Parcelable,
        "enum" => Kind::Enum,
        "oneway" => Kind::Oneway,
        "const" => Kind::Const,
        "inout" | "in" | "out" => Kind::Direction,
        "void" => Kind::Void,
        "String" => Kind::StringT,
        "CharSequence" => Kind::CharSequence,
        "List" => Kind::List,
        "Map" => Kind::Map,
        "true" | "false" => Kind::Boolean,
        w if PRIMITIVES.contains(&w) => Kind::Primitive,
        _ => return None,
    })
}

/// Is this word excluded from being a user identifier (keyword, literal or reserved word)?
pub fn is_forbidden_name(word: &str) -> bool {
    keyword_kind(word).is_some() || RESERVED_WORDS.contains(&word)
}

impl Kind {
    /// A representative lexeme.
    pub fn lexeme(self) -> &'static str {
        match self {
            Kind::Package => "package",
            Kind::Import => "import",
            Kind::Interface => "interface",
            Kind::Parcelable => "parcelable",
            Kind::Enum => "enum",
            Kind::Oneway => "oneway",
            Kind::Const => "const",
            Kind::Direction => "in",
            Kind::Void => "void",
            Kind::Primitive => "int",
            Kind::StringT => "String",
            Kind::CharSequence => "CharSequence",
            Kind::List => "List",
            Kind::Map => "Map",
            Kind::QuotedString => "\"s\"",
            Kind::Boolean => "true",
            Kind::Annotation => "@A",
            Kind::Semi => ";",
            Kind::Comma => ",",
            Kind::LBrace => "{",
            Kind::RBrace => "}",
            Kind::LParen => "(",
            Kind::RParen => ")",
            Kind::LBracket => "[",
            Kind::RBracket => "]",
            Kind::Lt => "<",
            Kind::Gt => ">",
            Kind::Eq => "=",
            Kind::Dot => ".",
            Kind::Minus => "-",
            Kind::Reserved => "for",
            Kind::Ident => "x",
            Kind::Integer => "7",
            Kind::Float => "1.5f",
        }
    }

    /// The name the generated parser uses for this token kind in its expectation sets.
    pub fn parser_name(self) -> &'static str {
        match self {
            Kind::Package => "PACKAGE",
            Kind::Import => "IMPORT",
            Kind::Interface => "INTERFACE",
            Kind::Parcelable => "PARCELABLE",
            Kind::Enum => "ENUM",
            Kind::Oneway => "ONEWAY",
            Kind::Const => "CONST",
            Kind::Direction => "DIRECTION",
            Kind::Void => "VOID",
            Kind::Primitive => "PRIMITIVE",
            Kind::StringT => "STRING",
            Kind::CharSequence => "CHAR_SEQUENCE",
            Kind::List => "LIST",
            Kind::Map => "MAP",
            Kind::QuotedString => "QUOTED_STRING",
            Kind::Boolean => "BOOLEAN",
            Kind::Annotation => "ANNOTATION",
            Kind::Semi => "\";\"",
            Kind::Comma => "\",\"",
            Kind::LBrace => "\"{\"",
            Kind::RBrace => "\"}\"",
            Kind::LParen => "\"(\"",
            Kind::RParen => "\")\"",
            Kind::LBracket => "\"[\"",
            Kind::RBracket => "\"]\"",
            Kind::Lt => "\"<\"",
            Kind::Gt => "\">\"",
            Kind::Eq => "\"=\"",
            Kind::Dot => "\".\"",
            Kind::Minus => "\"-\"",
            Kind::Reserved => "RESERVED_KEYWORD",
            Kind::Ident => "IDENT",
            Kind::Integer => "INTEGER",
            Kind::Float => "FLOAT",
        }
    }
}

#[derive(Clone, Debug, PartialEq, Eq)]
pub struct LexTok {
    pub kind: Kind,
    pub start: usize,
    pub end: usize,
}

#[derive(Clone, Debug, PartialEq, Eq)]
pub struct Lexed {
    pub toks: Vec<LexTok>,
    /// first offset at which no token and no trivia matches (lexing stops there)
    pub unlexable: Option<usize>,
}

fn is_ident_start(c: char) -> bool {
    c.is_ascii_alphabetic() || c == '_'
}
fn is_ident_cont(c: char) -> bool {
    c.is_ascii_alphanumeric() || c == '_'
}

/// Length of the trivia item starting at `s` (0 if none).
fn trivia_len(s: &str) -> usize {
    let mut chars = s.char_indices();
    match chars.next() {
        None => 0,
        Some((_, c)) if c.is_whitespace() => {
            let mut n = c.len_utf8();
            for (i, c) in chars {
                if c.is_whitespace() {
                    n = i + c.len_utf8();
                } else {
                    break;
                }
            }
            n
        }
        Some((_, '/')) => {
            let b = s.as_bytes();
            if b.len() >= 2 && b[1] == b'/' {
                // up to but excluding the first \n or \r, then all directly following \n / \r
                let mut i = 2;
                while i < b.len() && b[i] != b'\n' && b[i] != b'\r' {
                    i += 1;
                }
                while i < b.len() && (b[i] == b'\n' || b[i] == b'\r') {
                    i += 1;
                }
                i
            } else if b.len() >= 2 && b[1] == b'*' {
                // up to the first "*/" after the opening "/*"
                match s[2..].find("*/") {
                    Some(p) => 2 + p + 2,
                    None => 0,
                }
            } else {
                0
            }
        }
        _ => 0,
    }
}

/// Longest token at the start of `s`: (kind, length).
fn token_at(s: &str) -> Option<(Kind, usize)> {
    let b = s.as_bytes();
    let c = s.chars().next()?;
    // block 1: strings, annotations, signs; words are classified below
    let mut best: Option<(Kind, usize, u8)> = None; // (kind, len, block) smaller block wins ties
    let mut offer = |k: Kind, len: usize, block: u8| {
        if len == 0 {
            return;
        }
        match best {
            Some((_, l, bl)) if l > len || (l == len && bl <= block) => {}
            _ => best = Some((k, len, block)),
        }
    };
    match c {
        '"' => {
            // "..." without ", \n, \r inside
            let mut i = 1;
            let mut ok = false;
            while i < b.len() {
                match b[i] {
                    b'"' => {
                        ok = true;
                        i += 1;
                        break;
                    }
                    b'\n' | b'\r' => break,
                    _ => i += 1,
                }
            }
            if ok {
                offer(Kind::QuotedString, i, 1);
            }
        }
        '@' => {
            let mut it = s[1..].chars();
            if let Some(c1) = it.next() {
                if is_ident_start(c1) {
                    let mut n = 2;
                    for c in it {
                        if is_ident_cont(c) {
                            n += 1;
                        } else {
                            break;
                        }
                    }
                    offer(Kind::Annotation, n, 1);
                }
            }
        }
        ';' => offer(Kind::Semi, 1, 1),
        ',' => offer(Kind::Comma, 1, 1),
        '{' => offer(Kind::LBrace, 1, 1),
        '}' => offer(Kind::RBrace, 1, 1),
        '(' => offer(Kind::LParen, 1, 1),
        ')' => offer(Kind::RParen, 1, 1),
        '[' => offer(Kind::LBracket, 1, 1),
        ']' => offer(Kind::RBracket, 1, 1),
        '<' => offer(Kind::Lt, 1, 1),
        '>' => offer(Kind::Gt, 1, 1),
        '=' => offer(Kind::Eq, 1, 1),
        '.' => offer(Kind::Dot, 1, 1),
        '-' => offer(Kind::Minus, 1, 1),
        _ => {}
    }
    // words
    if is_ident_start(c) {
        let mut n = 0;
        for ch in s.chars() {
            if is_ident_cont(ch) {
                n += 1;
            } else {
                break;
            }
        }
        let w = &s[..n];
        if let Some(k) = keyword_kind(w) {
            offer(k, n, 1);
        } else if RESERVED_WORDS.contains(&w) {
            offer(Kind::Reserved, n, 2);
        } else {
            offer(Kind::Ident, n, 3);
        }
    }
    // INTEGER [0-9]+ (ASCII)
    if c.is_ascii_digit() {
        let n = b.iter().take_while(|x| x.is_ascii_digit()).count();
        offer(Kind::Integer, n, 3);
    }
    // FLOAT [+-]?(\d*\.)?\d+[f]?   (ASCII digits only in the reference)
    {
        let mut i = 0;
        if i < b.len() && (b[i] == b'+' || b[i] == b'-') {
            i += 1;
        }
        let d1_start = i;
        while i < b.len() && b[i].is_ascii_digit() {
            i += 1;
        }
        let d1 = i - d1_start;
        let mut len = 0;
        // option A: digits '.' digits+
        if i < b.len() && b[i] == b'.' {
            let mut j = i + 1;
            let d2_start = j;
            while j < b.len() && b[j].is_ascii_digit() {
                j += 1;
            }
            if j > d2_start {
                len = j;
            }
        }
        // option B: no '.', digits+ only (greedy regex prefers A when it matches; when A fails
        // the optional group is skipped and \d+ must match d1 digits)
        if len == 0 && d1 > 0 {
            len = i;
        }
        if len > 0 {
            if len < b.len() && b[len] == b'f' {
                len += 1;
            }
            offer(Kind::Float, len, 4);
        }
    }
    best.map(|(k, l, _)| (k, l))
}

pub fn lex(text: &str) -> Lexed {
    let mut toks = Vec::new();
    let mut pos = 0;
    loop {
        // skip trivia repeatedly
        loop {
            let n = trivia_len(&text[pos..]);
            if n == 0 {
                break;
            }
            pos += n;
        }
        if pos >= text.len() {
            return Lexed {
                toks,
                unlexable: None,
            };
        }
        // A token and a trivia item never start with the same character except '/', where no
        // token exists, so "longest of both" is decided by the trivia test above.
        match token_at(&text[pos..]) {
            Some((kind, len)) => {
                toks.push(LexTok {
                    kind,
                    start: pos,
                    end: pos + len,
                });
                pos += len;
            }
            None => {
                return Lexed {
                    toks,
                    unlexable: Some(pos),
                }
            }
        }
    }
}

/// Do the two lexemes need a separator between them to be lexed as the same two tokens?
pub fn needs_separator(a: &str, b: &str) -> bool {
    let joined = format!("{a}{b}");
    let l = lex(&joined);
    if l.unlexable.is_some() || l.toks.len() != 2 {
        return true;
    }
    let la = lex(a);
    let lb = lex(b);
    if la.toks.len() != 1 || lb.toks.len() != 1 {
        return true;
    }
    !(l.toks[0].end == a.len() && l.toks[0].kind == la.toks[0].kind && l.toks[1].kind == lb.toks[0].kind)
}

#[cfg(test)]
mod tests {
    use super::*;
    #[test]
    fn basics() {
        let l = lex("1. .5 -.5f 1f + x");
        assert_eq!(l.unlexable, Some(14));
        let kinds: Vec<Kind> = l.toks.iter().map(|t| t.kind).collect();
        assert_eq!(
            kinds,
            vec![Kind::Integer, Kind::Dot, Kind::Float, Kind::Float, Kind::Float]
        );
    }
}
