//! Reference validator over document models of a whole project, transcribed from the property
//! statements (C05-C10). Produces, per file, the resolution of every type node and the
//! expected validation diagnostics as records (class, severity, anchor, related).

use super::doc::*;
use serde::{Deserialize, Serialize};
use std::collections::BTreeMap;

#[derive(Clone, Copy, Debug, PartialEq, Eq, Hash, PartialOrd, Ord, Serialize, Deserialize)]
pub enum Builtin {
    IBinder,
    FileDescriptor,
    ParcelFileDescriptor,
    ParcelableHolder,
}

impl Builtin {
    pub fn from_simple(n: &str) -> Option<Builtin> {
        Some(match n {
            "IBinder" => Builtin::IBinder,
            "FileDescriptor" => Builtin::FileDescriptor,
            "ParcelFileDescriptor" => Builtin::ParcelFileDescriptor,
            "ParcelableHolder" => Builtin::ParcelableHolder,
            _ => return None,
        })
    }
    /// qualified names under which the built-ins can be imported (space of the checks:
    /// the android.os ones)
    pub fn from_qualified(n: &str) -> Option<Builtin> {
        Some(match n {
            "android.os.IBinder" => Builtin::IBinder,
            "android.os.ParcelFileDescriptor" => Builtin::ParcelFileDescriptor,
            "android.os.ParcelableHolder" => Builtin::ParcelableHolder,
            _ => return None,
        })
    }
    pub fn qualified(self) -> &'static str {
        match self {
            Builtin::IBinder => "android.os.IBinder",
            Builtin::FileDescriptor => "java.os.FileDescriptor",
            Builtin::ParcelFileDescriptor => "android.os.ParcelFileDescriptor",
            Builtin::ParcelableHolder => "android.os.ParcelableHolder",
        }
    }
}

#[derive(Clone, Debug, PartialEq, Eq, Serialize, Deserialize)]
pub enum Res {
    Builtin(Builtin),
    Item(String, ItemKindS),
    UnknownImport(String),
    Fwd(String),
    Unresolved,
    /// not a user-type reference (primitive, container, ...)
    NotCustom,
    /// the statement does not rank the candidates (several imports match)
    Ambiguous,
}

#[derive(Clone, Copy, Debug, PartialEq, Eq, Serialize, Deserialize)]
pub enum ItemKindS {
    Interface,
    Parcelable,
    Enum,
}

impl From<ItemKind> for ItemKindS {
    fn from(k: ItemKind) -> Self {
        match k {
            ItemKind::Interface => ItemKindS::Interface,
            ItemKind::Parcelable => ItemKindS::Parcelable,
            ItemKind::Enum => ItemKindS::Enum,
        }
    }
}

#[derive(Clone, Copy, Debug, PartialEq, Eq, Hash, PartialOrd, Ord)]
pub enum Cat {
    Primitive,
    Void,
    Str,
    CharSeq,
    Array,
    List,
    Map,
    IBinder,
    FileDescriptor,
    Pfd,
    ParcelableHolder,
    Interface,
    Parcelable,
    Enum,
    Fwd,
    UnknownImport,
    Unresolved,
    Ambiguous,
}

#[derive(Clone, Copy, Debug, PartialEq, Eq, Serialize, Deserialize, PartialOrd, Ord)]
pub enum Sev {
    Error,
    Warning,
}

/// a location requirement: exactly [lo, hi], or anywhere inside [lo, hi]
#[derive(Clone, Copy, Debug, PartialEq, Eq, Serialize, Deserialize, PartialOrd, Ord)]
pub struct Loc {
    pub lo: usize,
    pub hi: usize,
    pub exact: bool,
}

impl Loc {
    pub fn exact(lo: usize, hi: usize) -> Loc {
        Loc { lo, hi, exact: true }
    }
    pub fn within(lo: usize, hi: usize) -> Loc {
        Loc { lo, hi, exact: false }
    }
    pub fn admits(&self, s: usize, e: usize) -> bool {
        if self.exact {
            s == self.lo && e == self.hi
        } else {
            s >= self.lo && e <= self.hi && s <= e
        }
    }
}

#[derive(Clone, Debug, PartialEq, Eq, Serialize, Deserialize)]
pub struct Rec {
    pub class: String,
    pub sev: Sev,
    pub anchor: Loc,
    /// None: the statement does not say what the related information points to
    pub related: Option<Vec<Loc>>,
    /// the statement leaves open whether this diagnostic is due (it may or may not appear)
    #[serde(default)]
    pub optional: bool,
    /// alternative location that also satisfies the statement ("on that element": its name
    /// range or its whole extent)
    #[serde(default)]
    pub alt: Option<Loc>,
}

impl Rec {
    pub fn admits(&self, s: usize, e: usize) -> bool {
        self.anchor.admits(s, e) || self.alt.map(|a| a.admits(s, e)).unwrap_or(false)
    }
}

#[derive(Clone, Debug, Serialize, Deserialize)]
pub struct TypeExp {
    /// path in the scheme of the range collector (m0.ret.g1 ...)
    pub path: String,
    pub name: String,
    pub name_span: (usize, usize),
    pub res: Res,
}

#[derive(Clone, Debug, Default)]
pub struct FileExp {
    pub recs: Vec<Rec>,
    pub types: Vec<TypeExp>,
    /// spans (byte ranges) whose expectation the statements leave open
    pub dont_care: Vec<(usize, usize)>,
    /// oneway flag of every method after propagation
    pub method_oneway: Vec<bool>,
}

pub struct ProjectFacts {
    /// key -> kinds registered under it (more than one distinct kind: ambiguous)
    pub keys: BTreeMap<String, Vec<ItemKindS>>,
}

impl ProjectFacts {
    pub fn from_docs<'a>(docs: impl Iterator<Item = &'a Document>) -> ProjectFacts {
        let mut keys: BTreeMap<String, Vec<ItemKindS>> = BTreeMap::new();
        for d in docs {
            let e = keys.entry(d.key()).or_default();
            let k: ItemKindS = d.item.kind.into();
            if !e.contains(&k) {
                e.push(k);
            }
        }
        ProjectFacts { keys }
    }
    pub fn has_ambiguous_key(&self) -> bool {
        self.keys.values().any(|v| v.len() > 1)
    }
}

fn tspan(r: &Rendered, sp: Span) -> (usize, usize) {
    (r.start(sp.first), r.end(sp.last))
}

pub fn resolve(name: &str, doc: &Document, facts: &ProjectFacts) -> Res {
    let suffix = format!(".{name}");
    let mut matching: Vec<String> = Vec::new();
    for i in &doc.imports {
        let q = i.qualified();
        if (q == name || q.ends_with(&suffix)) && !matching.contains(&q) {
            matching.push(q);
        }
    }
    if matching.len() > 1 {
        // an import that equals the written name is the one meant; several suffix matches are
        // not ranked by the statement
        match matching.iter().position(|q| q == name) {
            Some(p) => {
                let q = matching.swap_remove(p);
                matching = vec![q];
            }
            None => return Res::Ambiguous,
        }
    }
    if let Some(q) = matching.first() {
        return match facts.keys.get(q) {
            Some(kinds) if kinds.len() == 1 => Res::Item(q.clone(), kinds[0]),
            Some(_) => Res::Ambiguous,
            None => match Builtin::from_qualified(q) {
                Some(b) => Res::Builtin(b),
                None => Res::UnknownImport(q.clone()),
            },
        };
    }
    if !name.contains('.') && doc.decls.iter().any(|d| d.segs.len() == 1 && d.segs[0] == name) {
        return Res::Fwd(name.to_string());
    }
    if let Some(b) = Builtin::from_simple(name) {
        return Res::Builtin(b);
    }
    if name == "android.os.ParcelFileDescriptor" {
        return Res::Builtin(Builtin::ParcelFileDescriptor);
    }
    Res::Unresolved
}

pub fn category(t: &Ty, doc: &Document, facts: &ProjectFacts) -> Cat {
    match &t.kind {
        TyKind::Void => Cat::Void,
        TyKind::Prim(_) => Cat::Primitive,
        TyKind::Str => Cat::Str,
        TyKind::CharSeq => Cat::CharSeq,
        TyKind::Array(_) => Cat::Array,
        TyKind::List(_) => Cat::List,
        TyKind::Map(_) => Cat::Map,
        TyKind::Custom(segs) => match resolve(&segs.join("."), doc, facts) {
            Res::Builtin(Builtin::IBinder) => Cat::IBinder,
            Res::Builtin(Builtin::FileDescriptor) => Cat::FileDescriptor,
            Res::Builtin(Builtin::ParcelFileDescriptor) => Cat::Pfd,
            Res::Builtin(Builtin::ParcelableHolder) => Cat::ParcelableHolder,
            Res::Item(_, ItemKindS::Interface) => Cat::Interface,
            Res::Item(_, ItemKindS::Parcelable) => Cat::Parcelable,
            Res::Item(_, ItemKindS::Enum) => Cat::Enum,
            Res::UnknownImport(_) => Cat::UnknownImport,
            Res::Fwd(_) => Cat::Fwd,
            Res::Unresolved => Cat::Unresolved,
            Res::Ambiguous | Res::NotCustom => Cat::Ambiguous,
        },
    }
}

struct Ctx<'a> {
    doc: &'a Document,
    r: &'a Rendered,
    facts: &'a ProjectFacts,
    out: FileExp,
    /// keys / names some type resolved to
    used: Vec<String>,
}

impl<'a> Ctx<'a> {
    fn rec(&mut self, class: &str, sev: Sev, anchor: Loc, related: Option<Vec<Loc>>) {
        self.out.recs.push(Rec {
            class: class.to_string(),
            sev,
            anchor,
            related,
            optional: false,
            alt: None,
        });
    }

    /// record located on an element type: its name range, or alternatively its whole extent
    fn rec_on_type(&mut self, class: &str, sev: Sev, t: &Ty) {
        let s = tspan(self.r, t.sym);
        let f = tspan(self.r, t.full);
        self.out.recs.push(Rec {
            class: class.to_string(),
            sev,
            anchor: Loc::exact(s.0, s.1),
            related: Some(vec![]),
            optional: false,
            alt: if f != s { Some(Loc::exact(f.0, f.1)) } else { None },
        });
    }

    /// resolution + container rules on one type tree (every node, any depth)
    fn ty(&mut self, t: &Ty, path: &str) {
        let name_span = tspan(self.r, t.sym);
        let res = match &t.kind {
            TyKind::Custom(segs) => {
                let name = segs.join(".");
                let res = resolve(&name, self.doc, self.facts);
                match &res {
                    Res::Item(k, _) | Res::UnknownImport(k) => self.used.push(k.clone()),
                    Res::Fwd(n) => self.used.push(format!("fwd:{n}")),
                    Res::Builtin(b) => self.used.push(b.qualified().to_string()),
                    Res::Unresolved => {
                        self.rec(
                            "unknown-type",
                            Sev::Error,
                            Loc::exact(name_span.0, name_span.1),
                            Some(vec![]),
                        );
                    }
                    Res::Ambiguous => self.out.dont_care.push(name_span),
                    Res::NotCustom => {}
                }
                res
            }
            _ => Res::NotCustom,
        };
        self.out.types.push(TypeExp {
            path: path.to_string(),
            name: t.stored_name(),
            name_span,
            res,
        });
        // container rules
        match &t.kind {
            TyKind::Array(e) => {
                let es = tspan(self.r, e.sym);
                let c = category(e, self.doc, self.facts);
                match c {
                    Cat::Array => self.rec_on_type("multi-dim-array", Sev::Error, e),
                    Cat::List | Cat::Map | Cat::Void | Cat::CharSeq | Cat::Interface | Cat::ParcelableHolder => {
                        self.rec_on_type("bad-array-element", Sev::Error, e)
                    }
                    Cat::Ambiguous => self.out.dont_care.push(es),
                    _ => {}
                }
            }
            TyKind::List(Some(e)) => {
                let es = tspan(self.r, e.sym);
                let c = category(e, self.doc, self.facts);
                match c {
                    Cat::Str | Cat::Parcelable | Cat::Fwd | Cat::UnknownImport | Cat::IBinder | Cat::Pfd | Cat::Unresolved => {}
                    Cat::Ambiguous => self.out.dont_care.push(es),
                    _ => self.rec_on_type("bad-list-element", Sev::Error, e),
                }
            }
            TyKind::List(None) => {
                self.rec("raw-list", Sev::Warning, Loc::exact(name_span.0, name_span.1), Some(vec![]));
            }
            TyKind::Map(None) => {
                self.rec("raw-map", Sev::Warning, Loc::exact(name_span.0, name_span.1), Some(vec![]));
            }
            TyKind::Map(Some(kv)) => {
                let (k, v) = (&kv.0, &kv.1);
                let ks = tspan(self.r, k.sym);
                match category(k, self.doc, self.facts) {
                    Cat::Str => {}
                    // the statement both says keys must be String and that unresolved names get
                    // the benefit of the doubt
                    Cat::Unresolved | Cat::Ambiguous => self.out.dont_care.push(ks),
                    _ => self.rec_on_type("bad-map-key", Sev::Error, k),
                }
                let vs = tspan(self.r, v.sym);
                match category(v, self.doc, self.facts) {
                    Cat::Primitive | Cat::Void | Cat::Enum => self.rec_on_type("bad-map-value", Sev::Error, v),
                    Cat::Ambiguous => self.out.dont_care.push(vs),
                    _ => {}
                }
            }
            _ => {}
        }
        for (i, c) in t.children().iter().enumerate() {
            self.ty(c, &format!("{path}.g{i}"));
        }
    }

    fn args(&mut self, m: &Method, oneway: bool) {
        for a in &m.args {
            let ts = tspan(self.r, a.ty.sym);
            let anchor = match &a.dir {
                Some(_) => {
                    let s = (self.r.start(a.dir_tok), self.r.end(a.dir_tok));
                    Loc::exact(s.0, s.1)
                }
                None => Loc::exact(ts.0, ts.0),
            };
            let d = a.dir.as_deref();
            let cat = category(&a.ty, self.doc, self.facts);
            match cat {
                Cat::Array | Cat::List | Cat::Map | Cat::Parcelable | Cat::Fwd => {
                    if d.is_none() {
                        self.rec("direction-required", Sev::Error, anchor, Some(vec![]));
                    }
                }
                Cat::Primitive | Cat::Str | Cat::CharSeq | Cat::Interface | Cat::Enum | Cat::IBinder
                | Cat::FileDescriptor | Cat::UnknownImport => {
                    if !(d.is_none() || d == Some("in")) {
                        self.rec("in-or-none", Sev::Error, anchor, Some(vec![]));
                    }
                }
                Cat::Pfd => {
                    if !(d == Some("in") || d == Some("inout")) {
                        self.rec("in-or-inout", Sev::Error, anchor, Some(vec![]));
                    }
                }
                Cat::ParcelableHolder => self.rec("never-an-argument", Sev::Error, anchor, Some(vec![])),
                Cat::Unresolved => {}
                // the statement is silent about `void` arguments
                Cat::Void | Cat::Ambiguous => {
                    self.out.dont_care.push((anchor.lo, anchor.hi));
                }
            }
            if oneway && (d == Some("out") || d == Some("inout")) {
                self.rec("oneway-out", Sev::Error, anchor, Some(vec![]));
            }
        }
    }
}

/// Expected validation output of `doc` (rendered as `r`) inside a project with `facts`.
pub fn expect_file(doc: &Document, r: &Rendered, facts: &ProjectFacts) -> FileExp {
    let mut cx = Ctx {
        doc,
        r,
        facts,
        out: FileExp::default(),
        used: Vec::new(),
    };
    let item = &doc.item;
    // types, containers
    if item.kind != ItemKind::Enum {
        for (i, m) in item.members.iter().enumerate() {
            let p = format!("m{i}");
            match m {
                Member::Method(mm) => {
                    cx.ty(&mm.ret, &format!("{p}.ret"));
                    for (j, a) in mm.args.iter().enumerate() {
                        cx.ty(&a.ty, &format!("{p}.a{j}.type"));
                    }
                }
                Member::Const(c) => cx.ty(&c.ty, &format!("{p}.type")),
                Member::Field(f) => cx.ty(&f.ty, &format!("{p}.type")),
            }
        }
    }
    // imports
    let mut first_import: Vec<(String, usize)> = Vec::new();
    for (idx, imp) in doc.imports.iter().enumerate() {
        let q = imp.qualified();
        let extent = Loc::within(r.start(imp.span.first), r.end(imp.semi_tok));
        if let Some((_, fi)) = first_import.iter().find(|(k, _)| *k == q) {
            let f = &doc.imports[*fi];
            cx.rec(
                "duplicate-import",
                Sev::Error,
                extent,
                Some(vec![Loc::within(r.start(f.span.first), r.end(f.semi_tok))]),
            );
            continue;
        }
        first_import.push((q.clone(), idx));
        let resolvable = facts.keys.contains_key(&q) || Builtin::from_qualified(&q).is_some();
        if !resolvable {
            cx.rec("unresolved-import", Sev::Warning, extent, Some(vec![]));
        } else if !cx.used.contains(&q) {
            cx.rec("unused-import", Sev::Warning, extent, Some(vec![]));
        }
    }
    // forward declarations
    let mut first_decl: Vec<(String, usize)> = Vec::new();
    for (idx, d) in doc.decls.iter().enumerate() {
        let q = d.qualified();
        let simple = d.segs.last().unwrap().clone();
        let extent = Loc::within(r.start(d.first_tok), r.end(d.span.last));
        let conflicting: Vec<&Import> = first_import
            .iter()
            .map(|(_, i)| &doc.imports[*i])
            .filter(|i| i.simple() == simple)
            .collect();
        if !conflicting.is_empty() {
            let rel = if conflicting.len() == 1 {
                let c = conflicting[0];
                Some(vec![Loc::within(r.start(c.span.first), r.end(c.semi_tok))])
            } else {
                None
            };
            cx.rec("declaration-conflicts-with-import", Sev::Error, extent, rel);
            continue;
        }
        if let Some((_, fi)) = first_decl.iter().find(|(k, _)| *k == q) {
            let f = &doc.decls[*fi];
            cx.rec(
                "repeated-declaration",
                Sev::Error,
                extent,
                Some(vec![Loc::within(r.start(f.first_tok), r.end(f.span.last))]),
            );
            continue;
        }
        first_decl.push((q.clone(), idx));
        if cx.used.contains(&format!("fwd:{q}")) {
            cx.rec("declared-parcelable-usage", Sev::Warning, extent, Some(vec![]));
        } else {
            cx.rec("unused-declaration", Sev::Warning, extent, Some(vec![]));
        }
    }
    // interface rules
    if item.kind == ItemKind::Interface {
        // oneway propagation + redundant keyword
        let mut oneways = Vec::new();
        for m in &item.members {
            if let Member::Method(mm) = m {
                let ow = mm.oneway || item.oneway;
                oneways.push(ow);
                if item.oneway && mm.oneway {
                    let s = (r.start(mm.oneway_tok), r.end(mm.oneway_tok));
                    cx.rec("redundant-oneway", Sev::Warning, Loc::exact(s.0, s.1), None);
                }
                if ow && !matches!(mm.ret.kind, TyKind::Void) {
                    cx.rec_on_type("oneway-must-return-void", Sev::Error, &mm.ret);
                }
                cx.args(mm, ow);
            }
        }
        cx.out.method_oneway = oneways;
        // duplicate names, duplicate / mixed transact codes
        let methods: Vec<&Method> = item
            .members
            .iter()
            .filter_map(|m| if let Member::Method(mm) = m { Some(mm) } else { None })
            .collect();
        let mut names: Vec<(&str, &Method)> = Vec::new();
        let mut firsts: Vec<&Method> = Vec::new();
        for m in &methods {
            if let Some((_, f)) = names.iter().find(|(n, _)| *n == m.name) {
                // "flagged with one Error that points back to the first occurrence": located
                // anywhere on the repeating method, related anywhere on the first one
                cx.rec(
                    "duplicate-method-name",
                    Sev::Error,
                    Loc::within(r.start(m.first_tok), r.end(m.semi_tok)),
                    Some(vec![Loc::within(r.start(f.first_tok), r.end(f.semi_tok))]),
                );
            } else {
                names.push((&m.name, m));
                firsts.push(m);
            }
        }
        let code_of = |m: &Method| m.code.as_ref().and_then(|c| c.parse::<u32>().ok());
        let mut codes: Vec<(u32, &Method)> = Vec::new();
        for m in &firsts {
            if let Some(c) = code_of(m) {
                if let Some((_, f)) = codes.iter().find(|(k, _)| *k == c) {
                    cx.rec(
                        "duplicate-transact-code",
                        Sev::Error,
                        Loc::within(r.start(m.first_tok), r.end(m.semi_tok)),
                        Some(vec![Loc::within(r.start(f.first_tok), r.end(f.semi_tok))]),
                    );
                } else {
                    codes.push((c, m));
                }
            }
        }
        // 'mixed': the sentence scopes it "among methods with distinct names" (first occurrences):
        // exactly one Error at the first such method whose with/without status differs from an
        // earlier one
        let first = firsts.first().map(|m| code_of(m).is_some());
        if let Some(first) = first {
            if let Some(m) = firsts.iter().find(|m| code_of(m).is_some() != first) {
                cx.out.recs.push(Rec {
                    class: "mixed-transact-codes".into(),
                    sev: Sev::Error,
                    anchor: Loc::within(r.start(m.first_tok), r.end(m.semi_tok)),
                    related: None,
                    optional: false,
                    alt: None,
                });
            }
        }
    }
    cx.out
}
