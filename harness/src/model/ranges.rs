//! Expected ranges of a well-formed document, derived from the token table.
//! Paths name the ranges the same way as the implementation-side collector
//! (`package.symbol`, `m0.ret.g1.full`, `m2.a0.direction`, ...).

use super::doc::*;
use serde::{Deserialize, Serialize};

#[derive(Serialize, Deserialize, Clone, Debug)]
pub struct ExpRange {
    pub path: String,
    /// allowed start offsets
    pub starts: Vec<usize>,
    /// allowed end offsets
    pub ends: Vec<usize>,
}

struct Ex<'a> {
    r: &'a Rendered,
    out: Vec<ExpRange>,
}

impl<'a> Ex<'a> {
    fn exact(&mut self, path: String, sp: Span) {
        self.out.push(ExpRange {
            path,
            starts: vec![self.r.start(sp.first)],
            ends: vec![self.r.end(sp.last)],
        });
    }
    /// full range: starts at the first token, optionally extended backwards to the end of the
    /// last annotation; ends at the last token, optionally including the terminating ';'
    fn full(&mut self, path: String, first: usize, last_annot: Option<usize>, last: usize, semi: Option<usize>) {
        let mut starts = vec![self.r.start(first)];
        if let Some(a) = last_annot {
            starts.push(self.r.end(a));
        }
        let mut ends = vec![self.r.end(last)];
        if let Some(s) = semi {
            ends.push(self.r.end(s));
        }
        self.out.push(ExpRange { path, starts, ends });
    }
    fn ty(&mut self, path: &str, t: &Ty) {
        self.exact(format!("{path}.symbol"), t.sym);
        self.exact(format!("{path}.full"), t.full);
        for (i, c) in t.children().iter().enumerate() {
            self.ty(&format!("{path}.g{i}"), c);
        }
    }
}

fn last_annot(annots: &[Annot]) -> Option<usize> {
    annots.last().map(|a| a.span.last)
}

fn one(t: usize) -> Span {
    Span { first: t, last: t }
}

pub fn expected_ranges(doc: &Document, r: &Rendered) -> Vec<ExpRange> {
    let mut ex = Ex { r, out: Vec::new() };
    ex.exact("package.symbol".into(), doc.pkg_name_span);
    ex.full(
        "package.full".into(),
        doc.pkg_span.first,
        None,
        doc.pkg_span.last,
        Some(doc.pkg_span.last + 1),
    );
    for (i, mi) in doc.imports.iter().enumerate() {
        ex.exact(format!("import{i}.symbol"), mi.name_span);
        ex.full(format!("import{i}.full"), mi.span.first, None, mi.span.last, Some(mi.semi_tok));
    }
    for (i, md) in doc.decls.iter().enumerate() {
        ex.exact(format!("decl{i}.symbol"), md.name_span);
        ex.full(
            format!("decl{i}.full"),
            md.span.first,
            last_annot(&md.annots),
            md.span.last - 1,
            Some(md.span.last),
        );
    }
    let it = &doc.item;
    ex.exact("item.symbol".into(), one(it.name_tok));
    ex.full("item.full".into(), it.span.first, last_annot(&it.annots), it.span.last, None);
    if it.kind == ItemKind::Enum {
        for (i, m) in it.elems.iter().enumerate() {
            ex.exact(format!("e{i}.symbol"), one(m.name_tok));
            ex.full(format!("e{i}.full"), m.span.first, last_annot(&m.annots), m.span.last, None);
        }
    } else {
        for (i, m) in it.members.iter().enumerate() {
            let p = format!("m{i}");
            match m {
                Member::Method(mm) => {
                    ex.exact(format!("{p}.symbol"), one(mm.name_tok));
                    ex.full(
                        format!("{p}.full"),
                        mm.span.first,
                        last_annot(&mm.annots),
                        mm.span.last,
                        Some(mm.semi_tok),
                    );
                    // oneway / transact-code / direction ranges: the statement of C04 only asks for
                    // well-formedness and nesting (C10 and C07 pin the keyword ranges through the
                    // diagnostics located on them)
                    ex.ty(&format!("{p}.ret"), &mm.ret);
                    for (j, ma) in mm.args.iter().enumerate() {
                        let ap = format!("{p}.a{j}");
                        if ma.name.is_some() {
                            ex.exact(format!("{ap}.symbol"), one(ma.name_tok));
                        }
                        // an unnamed argument has no name as written: its name range is only
                        // required to be well-formed and inside the argument (nesting check)
                        ex.full(format!("{ap}.full"), ma.span.first, None, ma.span.last, None);

                        ex.ty(&format!("{ap}.type"), &ma.ty);
                    }
                }
                Member::Const(mc) => {
                    ex.exact(format!("{p}.symbol"), one(mc.name_tok));
                    ex.full(
                        format!("{p}.full"),
                        mc.span.first,
                        last_annot(&mc.annots),
                        mc.span.last,
                        Some(mc.semi_tok),
                    );
                    ex.ty(&format!("{p}.type"), &mc.ty);
                }
                Member::Field(mf) => {
                    ex.exact(format!("{p}.symbol"), one(mf.name_tok));
                    ex.full(
                        format!("{p}.full"),
                        mf.span.first,
                        last_annot(&mf.annots),
                        mf.span.last,
                        Some(mf.semi_tok),
                    );
                    ex.ty(&format!("{p}.type"), &mf.ty);
                }
            }
        }
    }
    ex.out
}
