//! Document model of a well-formed AIDL file, and its rendering into a token list.
//! `emit` fills in, for every node, the token indices that make up its name / extent, so
//! that every expected offset can be derived from the token table by construction.

use super::lex::{self, Kind};

/// Inclusive token-index span. `EMPTY` until `emit` has run (or for absent optionals).
#[derive(Clone, Copy, Debug, PartialEq, Eq)]
pub struct Span {
    pub first: usize,
    pub last: usize,
}
pub const NOSPAN: Span = Span {
    first: usize::MAX,
    last: usize::MAX,
};

#[derive(Clone, Debug, PartialEq, Eq)]
pub struct Tok {
    pub kind: Kind,
    pub text: String,
}

#[derive(Clone, Debug, PartialEq)]
pub enum Scalar {
    Integer(String),
    Float(String),
    Str(String), // lexeme including quotes
    Bool(bool),
}

impl Scalar {
    pub fn lexeme(&self) -> String {
        match self {
            Scalar::Integer(s) | Scalar::Float(s) | Scalar::Str(s) => s.clone(),
            Scalar::Bool(b) => b.to_string(),
        }
    }
    pub fn kind(&self) -> Kind {
        match self {
            Scalar::Integer(_) => Kind::Integer,
            Scalar::Float(_) => Kind::Float,
            Scalar::Str(_) => Kind::QuotedString,
            Scalar::Bool(_) => Kind::Boolean,
        }
    }
}

#[derive(Clone, Debug, PartialEq)]
pub enum Value {
    Scalar(Scalar),
    EmptyBraces,
    /// `{ v+ (, v)* ,? }`
    Braces {
        first: Vec<Value>,
        rest: Vec<Value>,
        trailing: bool,
    },
    Qual(String, String),
}

impl Value {
    /// text the library is documented to store for this value
    pub fn stored(&self) -> String {
        match self {
            Value::Scalar(s) => s.lexeme(),
            Value::EmptyBraces => "{}".into(),
            Value::Braces { .. } => "{...}".into(),
            Value::Qual(a, b) => format!("{a}.{b}"),
        }
    }
}

#[derive(Clone, Debug, PartialEq)]
pub struct Annot {
    pub name: String, // with '@'
    /// None: no parentheses
    pub params: Option<Vec<(String, Option<Scalar>)>>,
    pub trailing_comma: bool,
    pub span: Span,
}

impl Annot {
    pub fn simple(name: &str) -> Annot {
        Annot {
            name: name.into(),
            params: None,
            trailing_comma: false,
            span: NOSPAN,
        }
    }
}

#[derive(Clone, Debug, PartialEq)]
pub enum TyKind {
    Void,
    Prim(String),
    Str,
    CharSeq,
    Array(Box<Ty>),
    List(Option<Box<Ty>>),
    Map(Option<Box<(Ty, Ty)>>),
    Custom(Vec<String>),
}

#[derive(Clone, Debug, PartialEq)]
pub struct Ty {
    pub kind: TyKind,
    /// name span: the name token(s); List/Map: the keyword; Array: its element's *full* extent
    pub sym: Span,
    pub full: Span,
}

impl Ty {
    pub fn new(kind: TyKind) -> Ty {
        Ty {
            kind,
            sym: NOSPAN,
            full: NOSPAN,
        }
    }
    pub fn void() -> Ty {
        Ty::new(TyKind::Void)
    }
    pub fn prim(s: &str) -> Ty {
        Ty::new(TyKind::Prim(s.into()))
    }
    pub fn string() -> Ty {
        Ty::new(TyKind::Str)
    }
    pub fn charseq() -> Ty {
        Ty::new(TyKind::CharSeq)
    }
    pub fn array(t: Ty) -> Ty {
        Ty::new(TyKind::Array(Box::new(t)))
    }
    pub fn list(t: Ty) -> Ty {
        Ty::new(TyKind::List(Some(Box::new(t))))
    }
    pub fn raw_list() -> Ty {
        Ty::new(TyKind::List(None))
    }
    pub fn map(k: Ty, v: Ty) -> Ty {
        Ty::new(TyKind::Map(Some(Box::new((k, v)))))
    }
    pub fn raw_map() -> Ty {
        Ty::new(TyKind::Map(None))
    }
    pub fn custom(name: &str) -> Ty {
        Ty::new(TyKind::Custom(name.split('.').map(|s| s.to_string()).collect()))
    }
    /// name as the library is documented to store it
    pub fn stored_name(&self) -> String {
        match &self.kind {
            TyKind::Void => "void".into(),
            TyKind::Prim(s) => s.clone(),
            TyKind::Str => "String".into(),
            TyKind::CharSeq => "CharSequence".into(),
            TyKind::Array(_) => "Array".into(),
            TyKind::List(_) => "List".into(),
            TyKind::Map(_) => "Map".into(),
            TyKind::Custom(segs) => segs.join("."),
        }
    }
    pub fn children(&self) -> Vec<&Ty> {
        match &self.kind {
            TyKind::Array(t) => vec![t],
            TyKind::List(Some(t)) => vec![t],
            TyKind::Map(Some(kv)) => vec![&kv.0, &kv.1],
            _ => vec![],
        }
    }
    pub fn children_mut(&mut self) -> Vec<&mut Ty> {
        match &mut self.kind {
            TyKind::Array(t) => vec![t],
            TyKind::List(Some(t)) => vec![t],
            TyKind::Map(Some(kv)) => {
                let (a, b) = &mut **kv;
                vec![a, b]
            }
            _ => vec![],
        }
    }
    pub fn depth(&self) -> usize {
        1 + self.children().iter().map(|c| c.depth()).max().unwrap_or(0)
    }
    /// source text in canonical spacing (for messages and samples)
    pub fn text(&self) -> String {
        match &self.kind {
            TyKind::Array(t) => format!("{}[]", t.text()),
            TyKind::List(Some(t)) => format!("List<{}>", t.text()),
            TyKind::Map(Some(kv)) => format!("Map<{},{}>", kv.0.text(), kv.1.text()),
            _ => self.stored_name(),
        }
    }
}

#[derive(Clone, Debug, PartialEq)]
pub struct Arg {
    pub dir: Option<String>,
    pub annots: Vec<Annot>,
    pub ty: Ty,
    pub name: Option<String>,
    pub dir_tok: usize,
    pub name_tok: usize,
    pub span: Span,
}

impl Arg {
    pub fn new(dir: Option<&str>, ty: Ty, name: Option<&str>) -> Arg {
        Arg {
            dir: dir.map(|s| s.into()),
            annots: vec![],
            ty,
            name: name.map(|s| s.into()),
            dir_tok: usize::MAX,
            name_tok: usize::MAX,
            span: NOSPAN,
        }
    }
}

#[derive(Clone, Debug, PartialEq)]
pub struct Method {
    pub annots: Vec<Annot>,
    pub oneway: bool,
    pub ret: Ty,
    pub name: String,
    pub args: Vec<Arg>,
    pub args_trailing_comma: bool,
    pub code: Option<String>, // INTEGER lexeme
    // filled by emit
    pub oneway_tok: usize,
    pub name_tok: usize,
    pub lparen_tok: usize,
    pub rparen_tok: usize,
    /// '=' .. INTEGER
    pub code_span: Span,
    /// first token after the annotations .. last token before ';'
    pub span: Span,
    pub semi_tok: usize,
    /// first token of the whole member including annotations
    pub first_tok: usize,
}

impl Method {
    pub fn new(ret: Ty, name: &str, args: Vec<Arg>) -> Method {
        Method {
            annots: vec![],
            oneway: false,
            ret,
            name: name.into(),
            args,
            args_trailing_comma: false,
            code: None,
            oneway_tok: usize::MAX,
            name_tok: usize::MAX,
            lparen_tok: usize::MAX,
            rparen_tok: usize::MAX,
            code_span: NOSPAN,
            span: NOSPAN,
            semi_tok: usize::MAX,
            first_tok: usize::MAX,
        }
    }
}

#[derive(Clone, Debug, PartialEq)]
pub struct Const {
    pub annots: Vec<Annot>,
    pub ty: Ty,
    pub name: String,
    pub value: Value,
    pub name_tok: usize,
    pub span: Span, // CONST .. last value token
    pub semi_tok: usize,
    pub first_tok: usize,
}

impl Const {
    pub fn new(ty: Ty, name: &str, value: Value) -> Const {
        Const {
            annots: vec![],
            ty,
            name: name.into(),
            value,
            name_tok: usize::MAX,
            span: NOSPAN,
            semi_tok: usize::MAX,
            first_tok: usize::MAX,
        }
    }
}

#[derive(Clone, Debug, PartialEq)]
pub struct Field {
    pub annots: Vec<Annot>,
    pub ty: Ty,
    pub name: String,
    pub value: Option<Value>,
    pub name_tok: usize,
    pub span: Span, // type first .. last token before ';'
    pub semi_tok: usize,
    pub first_tok: usize,
}

impl Field {
    pub fn new(ty: Ty, name: &str, value: Option<Value>) -> Field {
        Field {
            annots: vec![],
            ty,
            name: name.into(),
            value,
            name_tok: usize::MAX,
            span: NOSPAN,
            semi_tok: usize::MAX,
            first_tok: usize::MAX,
        }
    }
}

#[derive(Clone, Debug, PartialEq)]
pub struct EnumElem {
    pub annots: Vec<Annot>,
    pub name: String,
    pub value: Option<Scalar>,
    pub name_tok: usize,
    pub span: Span, // name .. value
    pub first_tok: usize,
    /// the ',' that follows (usize::MAX if none)
    pub comma_tok: usize,
}

impl EnumElem {
    pub fn new(name: &str, value: Option<Scalar>) -> EnumElem {
        EnumElem {
            annots: vec![],
            name: name.into(),
            value,
            name_tok: usize::MAX,
            span: NOSPAN,
            first_tok: usize::MAX,
            comma_tok: usize::MAX,
        }
    }
}

#[derive(Clone, Debug, PartialEq)]
pub enum Member {
    Method(Method),
    Const(Const),
    Field(Field),
}

impl Member {
    pub fn name(&self) -> &str {
        match self {
            Member::Method(m) => &m.name,
            Member::Const(c) => &c.name,
            Member::Field(f) => &f.name,
        }
    }
    /// (first token incl. annotations, terminating ';')
    pub fn extent(&self) -> (usize, usize) {
        match self {
            Member::Method(m) => (m.first_tok, m.semi_tok),
            Member::Const(c) => (c.first_tok, c.semi_tok),
            Member::Field(f) => (f.first_tok, f.semi_tok),
        }
    }
}

#[derive(Clone, Copy, Debug, PartialEq, Eq, Hash, PartialOrd, Ord)]
pub enum ItemKind {
    Interface,
    Parcelable,
    Enum,
}

#[derive(Clone, Debug, PartialEq)]
pub struct Item {
    pub kind: ItemKind,
    pub annots: Vec<Annot>,
    pub oneway: bool, // interfaces only
    pub name: String,
    pub members: Vec<Member>,    // interface / parcelable
    pub elems: Vec<EnumElem>,    // enum
    pub elems_trailing_comma: bool,
    pub name_tok: usize,
    pub span: Span, // first token after annotations .. '}'
    pub first_tok: usize,
    pub lbrace_tok: usize,
}

impl Item {
    pub fn new(kind: ItemKind, name: &str) -> Item {
        Item {
            kind,
            annots: vec![],
            oneway: false,
            name: name.into(),
            members: vec![],
            elems: vec![],
            elems_trailing_comma: false,
            name_tok: usize::MAX,
            span: NOSPAN,
            first_tok: usize::MAX,
            lbrace_tok: usize::MAX,
        }
    }
}

#[derive(Clone, Debug, PartialEq)]
pub struct Import {
    pub segs: Vec<String>,
    pub name_span: Span,
    pub span: Span, // IMPORT .. last segment
    pub semi_tok: usize,
}

impl Import {
    pub fn new(q: &str) -> Import {
        Import {
            segs: q.split('.').map(|s| s.to_string()).collect(),
            name_span: NOSPAN,
            span: NOSPAN,
            semi_tok: usize::MAX,
        }
    }
    pub fn qualified(&self) -> String {
        self.segs.join(".")
    }
    pub fn simple(&self) -> &str {
        self.segs.last().unwrap()
    }
}

#[derive(Clone, Debug, PartialEq)]
pub struct Decl {
    pub annots: Vec<Annot>,
    pub segs: Vec<String>,
    pub name_span: Span,
    pub span: Span, // PARCELABLE .. ';'
    pub first_tok: usize,
}

impl Decl {
    pub fn new(q: &str) -> Decl {
        Decl {
            annots: vec![],
            segs: q.split('.').map(|s| s.to_string()).collect(),
            name_span: NOSPAN,
            span: NOSPAN,
            first_tok: usize::MAX,
        }
    }
    pub fn qualified(&self) -> String {
        self.segs.join(".")
    }
}

#[derive(Clone, Debug, PartialEq)]
pub struct Document {
    pub package: Vec<String>,
    pub pkg_name_span: Span,
    pub pkg_span: Span, // PACKAGE .. last segment
    pub imports: Vec<Import>,
    pub decls: Vec<Decl>,
    pub item: Item,
}

impl Document {
    pub fn new(pkg: &str, item: Item) -> Document {
        Document {
            package: pkg.split('.').map(|s| s.to_string()).collect(),
            pkg_name_span: NOSPAN,
            pkg_span: NOSPAN,
            imports: vec![],
            decls: vec![],
            item,
        }
    }
    pub fn package_name(&self) -> String {
        self.package.join(".")
    }
    pub fn key(&self) -> String {
        format!("{}.{}", self.package_name(), self.item.name)
    }
}

// ------------------------------------------------------------------------------------------
// emission

pub struct Emitter {
    pub toks: Vec<Tok>,
}

impl Emitter {
    fn push(&mut self, kind: Kind, text: &str) -> usize {
        self.toks.push(Tok {
            kind,
            text: text.to_string(),
        });
        self.toks.len() - 1
    }
    fn sign(&mut self, kind: Kind) -> usize {
        self.push(kind, kind.lexeme())
    }
    fn ident(&mut self, s: &str) -> usize {
        self.push(Kind::Ident, s)
    }
    fn qname(&mut self, segs: &[String]) -> Span {
        let mut first = usize::MAX;
        let mut last = 0;
        for (i, s) in segs.iter().enumerate() {
            if i > 0 {
                self.sign(Kind::Dot);
            }
            let t = self.ident(s);
            if i == 0 {
                first = t;
            }
            last = t;
        }
        Span { first, last }
    }
    fn scalar(&mut self, s: &Scalar) -> usize {
        self.push(s.kind(), &s.lexeme())
    }
    fn value(&mut self, v: &Value) {
        match v {
            Value::Scalar(s) => {
                self.scalar(s);
            }
            Value::EmptyBraces => {
                self.sign(Kind::LBrace);
                self.sign(Kind::RBrace);
            }
            Value::Braces {
                first,
                rest,
                trailing,
            } => {
                self.sign(Kind::LBrace);
                for v in first {
                    self.value(v);
                }
                for v in rest {
                    self.sign(Kind::Comma);
                    self.value(v);
                }
                if *trailing {
                    self.sign(Kind::Comma);
                }
                self.sign(Kind::RBrace);
            }
            Value::Qual(a, b) => {
                self.ident(a);
                self.sign(Kind::Dot);
                self.ident(b);
            }
        }
    }
    fn annots(&mut self, annots: &mut [Annot]) {
        for a in annots {
            let first = self.push(Kind::Annotation, &a.name);
            let mut last = first;
            if let Some(params) = &a.params {
                self.sign(Kind::LParen);
                for (i, (k, v)) in params.iter().enumerate() {
                    if i > 0 {
                        self.sign(Kind::Comma);
                    }
                    self.ident(k);
                    if let Some(v) = v {
                        self.sign(Kind::Eq);
                        self.scalar(v);
                    }
                }
                if a.trailing_comma && !params.is_empty() {
                    self.sign(Kind::Comma);
                }
                last = self.sign(Kind::RParen);
            }
            a.span = Span { first, last };
        }
    }
    fn ty(&mut self, t: &mut Ty) {
        match &mut t.kind {
            TyKind::Void => {
                let i = self.push(Kind::Void, "void");
                t.sym = Span { first: i, last: i };
                t.full = t.sym;
            }
            TyKind::Prim(s) => {
                let s = s.clone();
                let i = self.push(Kind::Primitive, &s);
                t.sym = Span { first: i, last: i };
                t.full = t.sym;
            }
            TyKind::Str => {
                let i = self.push(Kind::StringT, "String");
                t.sym = Span { first: i, last: i };
                t.full = t.sym;
            }
            TyKind::CharSeq => {
                let i = self.push(Kind::CharSequence, "CharSequence");
                t.sym = Span { first: i, last: i };
                t.full = t.sym;
            }
            TyKind::Array(inner) => {
                self.ty(inner);
                self.sign(Kind::LBracket);
                let r = self.sign(Kind::RBracket);
                t.sym = inner.full;
                t.full = Span {
                    first: inner.full.first,
                    last: r,
                };
            }
            TyKind::List(inner) => {
                let kw = self.push(Kind::List, "List");
                t.sym = Span {
                    first: kw,
                    last: kw,
                };
                let mut last = kw;
                if let Some(inner) = inner {
                    self.sign(Kind::Lt);
                    self.ty(inner);
                    last = self.sign(Kind::Gt);
                }
                t.full = Span { first: kw, last };
            }
            TyKind::Map(inner) => {
                let kw = self.push(Kind::Map, "Map");
                t.sym = Span {
                    first: kw,
                    last: kw,
                };
                let mut last = kw;
                if let Some(kv) = inner {
                    self.sign(Kind::Lt);
                    self.ty(&mut kv.0);
                    self.sign(Kind::Comma);
                    self.ty(&mut kv.1);
                    last = self.sign(Kind::Gt);
                }
                t.full = Span { first: kw, last };
            }
            TyKind::Custom(segs) => {
                let segs = segs.clone();
                let sp = self.qname(&segs);
                t.sym = sp;
                t.full = sp;
            }
        }
    }
    fn method(&mut self, m: &mut Method) {
        let start = self.toks.len();
        self.annots(&mut m.annots);
        let first = self.toks.len();
        if m.oneway {
            m.oneway_tok = self.push(Kind::Oneway, "oneway");
        } else {
            m.oneway_tok = usize::MAX;
        }
        self.ty(&mut m.ret);
        m.name_tok = self.ident(&m.name.clone());
        m.lparen_tok = self.sign(Kind::LParen);
        let n = m.args.len();
        for (i, a) in m.args.iter_mut().enumerate() {
            let afirst = self.toks.len();
            if let Some(d) = &a.dir {
                a.dir_tok = self.push(Kind::Direction, d);
            } else {
                a.dir_tok = usize::MAX;
            }
            self.annots(&mut a.annots);
            self.ty(&mut a.ty);
            if let Some(nm) = &a.name {
                a.name_tok = self.ident(nm);
            } else {
                a.name_tok = usize::MAX;
            }
            a.span = Span {
                first: afirst,
                last: self.toks.len() - 1,
            };
            if i + 1 < n || m.args_trailing_comma {
                self.sign(Kind::Comma);
            }
        }
        m.rparen_tok = self.sign(Kind::RParen);
        if let Some(c) = &m.code {
            let e = self.sign(Kind::Eq);
            let i = self.push(Kind::Integer, c);
            m.code_span = Span { first: e, last: i };
        } else {
            m.code_span = NOSPAN;
        }
        m.span = Span {
            first,
            last: self.toks.len() - 1,
        };
        m.semi_tok = self.sign(Kind::Semi);
        m.first_tok = start;
    }
    fn constant(&mut self, c: &mut Const) {
        let start = self.toks.len();
        self.annots(&mut c.annots);
        let first = self.push(Kind::Const, "const");
        self.ty(&mut c.ty);
        c.name_tok = self.ident(&c.name.clone());
        self.sign(Kind::Eq);
        self.value(&c.value);
        c.span = Span {
            first,
            last: self.toks.len() - 1,
        };
        c.semi_tok = self.sign(Kind::Semi);
        c.first_tok = start;
    }
    fn field(&mut self, f: &mut Field) {
        let start = self.toks.len();
        self.annots(&mut f.annots);
        let first = self.toks.len();
        self.ty(&mut f.ty);
        f.name_tok = self.ident(&f.name.clone());
        if let Some(v) = &f.value {
            self.sign(Kind::Eq);
            self.value(v);
        }
        f.span = Span {
            first,
            last: self.toks.len() - 1,
        };
        f.semi_tok = self.sign(Kind::Semi);
        f.first_tok = start;
    }
}

/// Render the document into tokens, filling in all token indices of the model.
pub fn emit(doc: &mut Document) -> Vec<Tok> {
    let mut e = Emitter { toks: Vec::new() };
    let p = e.push(Kind::Package, "package");
    let pkg = doc.package.clone();
    doc.pkg_name_span = e.qname(&pkg);
    doc.pkg_span = Span {
        first: p,
        last: doc.pkg_name_span.last,
    };
    e.sign(Kind::Semi);
    for imp in &mut doc.imports {
        let i = e.push(Kind::Import, "import");
        let segs = imp.segs.clone();
        imp.name_span = e.qname(&segs);
        imp.span = Span {
            first: i,
            last: imp.name_span.last,
        };
        imp.semi_tok = e.sign(Kind::Semi);
    }
    for d in &mut doc.decls {
        d.first_tok = e.toks.len();
        e.annots(&mut d.annots);
        let p = e.push(Kind::Parcelable, "parcelable");
        let segs = d.segs.clone();
        d.name_span = e.qname(&segs);
        let s = e.sign(Kind::Semi);
        d.span = Span { first: p, last: s };
    }
    let item = &mut doc.item;
    item.first_tok = e.toks.len();
    e.annots(&mut item.annots);
    let first = e.toks.len();
    match item.kind {
        ItemKind::Interface => {
            if item.oneway {
                e.push(Kind::Oneway, "oneway");
            }
            e.push(Kind::Interface, "interface");
        }
        ItemKind::Parcelable => {
            e.push(Kind::Parcelable, "parcelable");
        }
        ItemKind::Enum => {
            e.push(Kind::Enum, "enum");
        }
    }
    item.name_tok = e.ident(&item.name.clone());
    item.lbrace_tok = e.sign(Kind::LBrace);
    match item.kind {
        ItemKind::Enum => {
            let n = item.elems.len();
            for (i, el) in item.elems.iter_mut().enumerate() {
                el.first_tok = e.toks.len();
                e.annots(&mut el.annots);
                el.name_tok = e.ident(&el.name.clone());
                let mut last = el.name_tok;
                if let Some(v) = &el.value {
                    e.sign(Kind::Eq);
                    last = e.scalar(v);
                }
                el.span = Span {
                    first: el.name_tok,
                    last,
                };
                if i + 1 < n || item.elems_trailing_comma {
                    el.comma_tok = e.sign(Kind::Comma);
                } else {
                    el.comma_tok = usize::MAX;
                }
            }
        }
        _ => {
            for m in &mut item.members {
                match m {
                    Member::Method(m) => e.method(m),
                    Member::Const(c) => e.constant(c),
                    Member::Field(f) => e.field(f),
                }
            }
        }
    }
    let r = e.sign(Kind::RBrace);
    item.span = Span { first, last: r };
    e.toks
}

// ------------------------------------------------------------------------------------------
// layout

#[derive(Clone, Debug)]
pub struct Rendered {
    pub text: String,
    pub toks: Vec<Tok>,
    /// byte span of every token
    pub spans: Vec<(usize, usize)>,
}

impl Rendered {
    pub fn start(&self, tok: usize) -> usize {
        self.spans[tok].0
    }
    pub fn end(&self, tok: usize) -> usize {
        self.spans[tok].1
    }
    pub fn kinds(&self) -> Vec<Kind> {
        self.toks.iter().map(|t| t.kind).collect()
    }
}

/// Is an empty filler legal between these two tokens (the lexer keeps them apart)?
pub fn can_abut(a: &Tok, b: &Tok) -> bool {
    !lex::needs_separator(&a.text, &b.text)
}

/// Lay the tokens out with the given gap fillers: `gaps[i]` goes before token i,
/// `gaps[n]` after the last token. A `None` gap is the default (one space, nothing at the
/// very start and end).
pub fn layout(toks: &[Tok], gaps: &dyn Fn(usize) -> Option<String>) -> Rendered {
    let mut text = String::new();
    let mut spans = Vec::with_capacity(toks.len());
    for (i, t) in toks.iter().enumerate() {
        match gaps(i) {
            Some(g) => text.push_str(&g),
            None => {
                if i > 0 {
                    text.push(' ');
                }
            }
        }
        let s = text.len();
        text.push_str(&t.text);
        spans.push((s, text.len()));
    }
    if let Some(g) = gaps(toks.len()) {
        text.push_str(&g);
    }
    Rendered {
        text,
        toks: toks.to_vec(),
        spans,
    }
}

pub fn layout_default(toks: &[Tok]) -> Rendered {
    layout(toks, &|_| None)
}

/// Minimal layout: no separator wherever the lexer does not need one.
pub fn layout_minimal(toks: &[Tok]) -> Rendered {
    layout(toks, &|i| {
        if i == 0 || i >= toks.len() {
            Some(String::new())
        } else if can_abut(&toks[i - 1], &toks[i]) {
            Some(String::new())
        } else {
            Some(" ".into())
        }
    })
}

/// Uniform layout: the same filler in every inner gap.
pub fn layout_uniform(toks: &[Tok], filler: &str) -> Rendered {
    layout(toks, &|i| {
        if i == 0 || i >= toks.len() {
            None
        } else {
            Some(filler.to_string())
        }
    })
}

/// One statement per line: a newline after every `;`, `{` and `}` (keeps lines short, so the
/// library's per-line column counting stays cheap on packed files).
pub fn layout_lines(toks: &[Tok]) -> Rendered {
    layout(toks, &|i| {
        if i == 0 || i >= toks.len() {
            None
        } else if matches!(toks[i - 1].kind, Kind::Semi | Kind::LBrace | Kind::RBrace) {
            Some("\n".into())
        } else {
            None
        }
    })
}
