//! Canonical projection of a document model: the tree the library is documented to return for
//! it (ranges, documentation and resolved kinds left out — other properties own those).

use super::doc::*;

pub fn proj_annots(annots: &[Annot]) -> String {
    let mut out = Vec::new();
    for a in annots {
        // a repeated key keeps the last value; keys are compared as a map (order-free)
        let mut kv: Vec<(String, Option<String>)> = Vec::new();
        if let Some(ps) = &a.params {
            for (k, v) in ps {
                let val = v.as_ref().map(|s| s.lexeme());
                if let Some(e) = kv.iter_mut().find(|e| &e.0 == k) {
                    e.1 = val;
                } else {
                    kv.push((k.clone(), val));
                }
            }
        }
        kv.sort();
        let body: Vec<String> = kv
            .iter()
            .map(|(k, v)| match v {
                Some(v) => format!("{k}={v}"),
                None => k.clone(),
            })
            .collect();
        out.push(format!("{}{{{}}}", a.name, body.join(",")));
    }
    format!("[{}]", out.join(" "))
}

pub fn proj_type(t: &Ty) -> String {
    let kind = match &t.kind {
        TyKind::Void => "Void",
        TyKind::Prim(_) => "Primitive",
        TyKind::Str => "String",
        TyKind::CharSeq => "CharSequence",
        TyKind::Array(_) => "Array",
        TyKind::List(_) => "List",
        TyKind::Map(_) => "Map",
        TyKind::Custom(_) => "Custom",
    };
    let ch: Vec<String> = t.children().iter().map(|c| proj_type(c)).collect();
    format!("T({}|{}|{})", t.stored_name(), kind, ch.join(","))
}

pub fn proj_member(m: &Member, force_oneway: bool) -> String {
    match m {
        Member::Method(m) => {
            let args: Vec<String> = m
                .args
                .iter()
                .map(|a| {
                    format!(
                        "(arg dir={} name={} annots={} type={})",
                        a.dir.as_deref().unwrap_or("-"),
                        a.name.as_deref().unwrap_or("-"),
                        proj_annots(&a.annots),
                        proj_type(&a.ty)
                    )
                })
                .collect();
            format!(
                "(method oneway={} name={} ret={} code={} annots={} args=[{}])",
                m.oneway || force_oneway,
                m.name,
                proj_type(&m.ret),
                match &m.code {
                    Some(c) => c.parse::<u32>().map(|v| v.to_string()).unwrap_or("ERR".into()),
                    None => "-".into(),
                },
                proj_annots(&m.annots),
                args.join(" ")
            )
        }
        Member::Const(c) => format!(
            "(const name={} type={} value={} annots={})",
            c.name,
            proj_type(&c.ty),
            c.value.stored(),
            proj_annots(&c.annots)
        ),
        Member::Field(f) => format!(
            "(field name={} type={} value={} annots={})",
            f.name,
            proj_type(&f.ty),
            f.value.as_ref().map(|v| v.stored()).unwrap_or("-".into()),
            proj_annots(&f.annots)
        ),
    }
}

pub fn proj_enum_elem(e: &EnumElem) -> String {
    // enum element annotations are not stored by the grammar
    format!(
        "(elem name={} value={})",
        e.name,
        e.value.as_ref().map(|v| v.lexeme()).unwrap_or("-".into())
    )
}

/// `validated`: project the tree as returned by validate() (oneway propagated from the interface)
pub fn proj_doc(d: &Document, validated: bool) -> String {
    let mut s = format!("(aidl pkg={}", d.package_name());
    for i in &d.imports {
        s.push_str(&format!(
            " (import path={} name={})",
            i.segs[..i.segs.len() - 1].join("."),
            i.simple()
        ));
    }
    for dc in &d.decls {
        // forward-declaration annotations are not stored by the grammar
        s.push_str(&format!(
            " (decl path={} name={})",
            dc.segs[..dc.segs.len() - 1].join("."),
            dc.segs.last().unwrap()
        ));
    }
    let it = &d.item;
    match it.kind {
        ItemKind::Interface => {
            s.push_str(&format!(
                " (interface oneway={} name={} annots={}",
                it.oneway,
                it.name,
                proj_annots(&it.annots)
            ));
            for m in &it.members {
                s.push(' ');
                s.push_str(&proj_member(m, validated && it.oneway));
            }
            s.push(')');
        }
        ItemKind::Parcelable => {
            s.push_str(&format!(
                " (parcelable name={} annots={}",
                it.name,
                proj_annots(&it.annots)
            ));
            for m in &it.members {
                s.push(' ');
                s.push_str(&proj_member(m, false));
            }
            s.push(')');
        }
        ItemKind::Enum => {
            s.push_str(&format!(
                " (enum name={} annots={}",
                it.name,
                proj_annots(&it.annots)
            ));
            for e in &it.elems {
                s.push(' ');
                s.push_str(&proj_enum_elem(e));
            }
            s.push(')');
        }
    }
    s.push(')');
    s
}
