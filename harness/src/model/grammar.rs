//! The supported AIDL grammar as a CFG table (DESIGN.md Appendix A) plus a generic Earley
//! recogniser. Nothing here depends on lalrpop or on the library under test.

use super::lex::Kind;
use std::collections::HashMap;
use std::sync::OnceLock;

const GRAMMAR: &str = r#"
Aidl       -> Package Imports Decls Item
Package    -> PACKAGE QName ;
Imports    -> | Imports Import
Import     -> IMPORT IdDots IDENT ;
IdDots     -> IDENT . | IdDots IDENT .
QName      -> IDENT | QName . IDENT
Decls      -> | Decls Decl
Decl       -> Annots PARCELABLE QName ;
Item       -> Interface | Parcelable | Enum
Interface  -> Annots OptOneway INTERFACE IDENT { IElems }
OptOneway  -> | ONEWAY
IElems     -> | IElems IElem
IElem      -> Method | Const
Parcelable -> Annots PARCELABLE IDENT { PElems }
PElems     -> | PElems PElem
PElem      -> Field | Const
Enum       -> Annots ENUM IDENT { EnumList }
EnumList   -> EnumPre | EnumPre EnumElem
EnumPre    -> | EnumPre EnumElem ,
EnumElem   -> Annots IDENT | Annots IDENT = Scalar
EnumElemC  -> EnumElem ,
Scalar     -> INTEGER | FLOAT | QUOTED_STRING | BOOLEAN
Method     -> Annots OptOneway Type IDENT ( ArgList ) OptCode ;
OptCode    -> | = INTEGER
ArgList    -> ArgPre | ArgPre Arg
ArgPre     -> | ArgPre Arg ,
Arg        -> OptDir Annots Type | OptDir Annots Type IDENT
OptDir     -> | DIRECTION
Const      -> Annots CONST Type IDENT = Value ;
Field      -> Annots Type IDENT ; | Annots Type IDENT = Value ;
Type       -> VOID | PRIMITIVE | STRING | CHAR_SEQUENCE | Type [ ] | LIST < Type > | LIST | MAP < Type , Type > | MAP | QName
Annots     -> | Annots Annot
Annot      -> ANNOTATION | ANNOTATION ( AParamList )
AParamList -> AParamPre | AParamPre AParam
AParamPre  -> | AParamPre AParam ,
AParam     -> IDENT | IDENT = Scalar
Value      -> Scalar | { } | { Values CommaValues OptComma } | IDENT . IDENT
Values     -> Value | Values Value
CommaValues -> | CommaValues , Value
OptComma   -> | ,
"#;

#[derive(Clone, Copy, Debug, PartialEq, Eq, Hash)]
enum Sym {
    T(Kind),
    N(usize),
}

pub struct Cfg {
    nt_names: Vec<String>,
    nt_index: HashMap<String, usize>,
    /// rules[nt] = list of right-hand sides
    rules: Vec<Vec<Vec<Sym>>>,
    nullable: Vec<bool>,
}

fn terminal(s: &str) -> Option<Kind> {
    Some(match s {
        "PACKAGE" => Kind::Package,
        "IMPORT" => Kind::Import,
        "INTERFACE" => Kind::Interface,
        "PARCELABLE" => Kind::Parcelable,
        "ENUM" => Kind::Enum,
        "ONEWAY" => Kind::Oneway,
        "CONST" => Kind::Const,
        "DIRECTION" => Kind::Direction,
        "VOID" => Kind::Void,
        "PRIMITIVE" => Kind::Primitive,
        "STRING" => Kind::StringT,
        "CHAR_SEQUENCE" => Kind::CharSequence,
        "LIST" => Kind::List,
        "MAP" => Kind::Map,
        "QUOTED_STRING" => Kind::QuotedString,
        "BOOLEAN" => Kind::Boolean,
        "ANNOTATION" => Kind::Annotation,
        ";" => Kind::Semi,
        "," => Kind::Comma,
        "{" => Kind::LBrace,
        "}" => Kind::RBrace,
        "(" => Kind::LParen,
        ")" => Kind::RParen,
        "[" => Kind::LBracket,
        "]" => Kind::RBracket,
        "<" => Kind::Lt,
        ">" => Kind::Gt,
        "=" => Kind::Eq,
        "." => Kind::Dot,
        "IDENT" => Kind::Ident,
        "INTEGER" => Kind::Integer,
        "FLOAT" => Kind::Float,
        _ => return None,
    })
}

impl Cfg {
    fn build() -> Cfg {
        let mut nt_names: Vec<String> = Vec::new();
        let mut nt_index: HashMap<String, usize> = HashMap::new();
        let lines: Vec<(&str, &str)> = GRAMMAR
            .lines()
            .filter(|l| !l.trim().is_empty())
            .map(|l| {
                let (a, b) = l.split_once("->").expect("rule");
                (a.trim(), b)
            })
            .collect();
        for (lhs, _) in &lines {
            if !nt_index.contains_key(*lhs) {
                nt_index.insert(lhs.to_string(), nt_names.len());
                nt_names.push(lhs.to_string());
            }
        }
        let mut rules: Vec<Vec<Vec<Sym>>> = vec![Vec::new(); nt_names.len()];
        for (lhs, rhs) in &lines {
            let n = nt_index[*lhs];
            for alt in rhs.split(" | ").map(|a| a.trim()).chain(
                // a leading "|" means an empty alternative first
                std::iter::empty(),
            ) {
                let alt = alt.trim_start_matches('|').trim();
                let mut syms = Vec::new();
                for w in alt.split_whitespace() {
                    if let Some(k) = terminal(w) {
                        syms.push(Sym::T(k));
                    } else if let Some(i) = nt_index.get(w) {
                        syms.push(Sym::N(*i));
                    } else {
                        panic!("unknown grammar symbol {w}");
                    }
                }
                rules[n].push(syms);
            }
            // "X -> | A" : the split above yields ["", "A"] only if written " | "; handle the
            // leading-bar form explicitly
            if rhs.trim_start().starts_with('|') && !rules[n].iter().any(|r| r.is_empty()) {
                rules[n].push(Vec::new());
            }
        }
        // nullable fixpoint
        let mut nullable = vec![false; nt_names.len()];
        loop {
            let mut changed = false;
            for n in 0..rules.len() {
                if nullable[n] {
                    continue;
                }
                if rules[n].iter().any(|r| {
                    r.iter().all(|s| match s {
                        Sym::T(_) => false,
                        Sym::N(i) => nullable[*i],
                    })
                }) {
                    nullable[n] = true;
                    changed = true;
                }
            }
            if !changed {
                break;
            }
        }
        Cfg {
            nt_names,
            nt_index,
            rules,
            nullable,
        }
    }

    pub fn get() -> &'static Cfg {
        static CFG: OnceLock<Cfg> = OnceLock::new();
        CFG.get_or_init(Cfg::build)
    }

    pub fn production_count(&self) -> usize {
        self.rules.iter().map(|r| r.len()).sum()
    }

    pub fn nonterminals(&self) -> &[String] {
        &self.nt_names
    }
}

#[derive(Clone, Copy, PartialEq, Eq, Hash, Debug)]
struct EItem {
    nt: usize,
    alt: usize,
    dot: usize,
    origin: usize,
}

pub struct Recognition {
    /// the sequence is a sentence of the start symbol
    pub accepted: bool,
    /// index of the first token after which no sentence can continue (the prefix up to and
    /// including it is not a viable prefix); None if the whole sequence is a viable prefix
    pub first_dead: Option<usize>,
    /// terminals that may follow the longest viable prefix (at `first_dead`, or at the end)
    pub expected: Vec<Kind>,
    /// may the input end right after the longest viable prefix?
    pub eof_ok: bool,
}

pub fn recognise(start: &str, toks: &[Kind]) -> Recognition {
    let g = Cfg::get();
    let s = *g
        .nt_index
        .get(start)
        .unwrap_or_else(|| panic!("unknown start symbol {start}"));
    let n = toks.len();
    let mut sets: Vec<Vec<EItem>> = vec![Vec::new(); n + 1];
    let mut seen: Vec<std::collections::HashSet<EItem>> =
        vec![std::collections::HashSet::new(); n + 1];
    fn add(
        sets: &mut [Vec<EItem>],
        seen: &mut [std::collections::HashSet<EItem>],
        k: usize,
        it: EItem,
    ) {
        if seen[k].insert(it) {
            sets[k].push(it);
        }
    }
    for alt in 0..g.rules[s].len() {
        add(
            &mut sets,
            &mut seen,
            0,
            EItem {
                nt: s,
                alt,
                dot: 0,
                origin: 0,
            },
        );
    }
    let mut first_dead = None;
    let mut last_live = 0;
    for k in 0..=n {
        let mut i = 0;
        while i < sets[k].len() {
            let it = sets[k][i];
            i += 1;
            let rhs = &g.rules[it.nt][it.alt];
            if it.dot < rhs.len() {
                match rhs[it.dot] {
                    Sym::N(b) => {
                        // predict
                        for alt in 0..g.rules[b].len() {
                            add(
                                &mut sets,
                                &mut seen,
                                k,
                                EItem {
                                    nt: b,
                                    alt,
                                    dot: 0,
                                    origin: k,
                                },
                            );
                        }
                        if g.nullable[b] {
                            add(
                                &mut sets,
                                &mut seen,
                                k,
                                EItem {
                                    dot: it.dot + 1,
                                    ..it
                                },
                            );
                        }
                    }
                    Sym::T(t) => {
                        if k < n && toks[k] == t {
                            add(
                                &mut sets,
                                &mut seen,
                                k + 1,
                                EItem {
                                    dot: it.dot + 1,
                                    ..it
                                },
                            );
                        }
                    }
                }
            } else {
                // complete
                let mut j = 0;
                while j < sets[it.origin].len() {
                    let p = sets[it.origin][j];
                    j += 1;
                    let prhs = &g.rules[p.nt][p.alt];
                    if p.dot < prhs.len() && prhs[p.dot] == Sym::N(it.nt) {
                        add(
                            &mut sets,
                            &mut seen,
                            k,
                            EItem {
                                dot: p.dot + 1,
                                ..p
                            },
                        );
                    }
                }
            }
        }
        if k < n && sets[k + 1].is_empty() {
            first_dead = Some(k);
            last_live = k;
            break;
        }
        last_live = k;
    }
    let accepted = first_dead.is_none()
        && sets[n].iter().any(|it| {
            it.nt == s && it.origin == 0 && it.dot == g.rules[it.nt][it.alt].len()
        });
    let mut expected: Vec<Kind> = Vec::new();
    let mut eof_ok = false;
    for it in &sets[last_live] {
        let rhs = &g.rules[it.nt][it.alt];
        if it.dot < rhs.len() {
            if let Sym::T(t) = rhs[it.dot] {
                if !expected.contains(&t) {
                    expected.push(t);
                }
            }
        } else if it.nt == s && it.origin == 0 {
            eof_ok = true;
        }
    }
    expected.sort();
    Recognition {
        accepted,
        first_dead,
        expected,
        eof_ok,
    }
}

pub fn well_formed(toks: &[Kind]) -> bool {
    recognise("Aidl", toks).accepted
}

/// Is `toks` (terminator included) a well-formed member of the given item kind?
/// `item`: 0 interface, 1 parcelable, 2 enum (terminator `,`), 3 enum last element (none)
pub fn is_member(item: usize, toks: &[Kind]) -> bool {
    let start = match item {
        0 => "IElem",
        1 => "PElem",
        2 => "EnumElemC",
        _ => "EnumElem",
    };
    recognise(start, toks).accepted
}

#[cfg(test)]
mod tests {
    use super::super::lex::lex;
    use super::*;
    fn kinds(s: &str) -> Vec<Kind> {
        lex(s).toks.iter().map(|t| t.kind).collect()
    }
    #[test]
    fn accepts() {
        assert!(well_formed(&kinds("package a.b; import c.D; parcelable X; @A(k=1,) oneway interface I { void f(in @B int[] x, List<Map<String,a.B>>) = 3; const int K = {1 2, 3,}; }")));
        assert!(well_formed(&kinds("package a; enum E { A = 1, B, }")));
        assert!(well_formed(&kinds("package a; parcelable P { int x = A.B; List y; }")));
        assert!(!well_formed(&kinds("package a; enum E { A = 1, , }")));
        assert!(!well_formed(&kinds("interface I {}")));
        let r = recognise("Aidl", &kinds("package a; interface for {}"));
        assert_eq!(r.first_dead, Some(4));
    }
}
