//! Text -> expected syntactic verdict, from the reference lexer and the Earley recogniser.

use super::grammar::{recognise, Recognition};
use super::lex::{lex, Kind, Lexed};

pub struct Verdict {
    pub lexed: Lexed,
    pub kinds: Vec<Kind>,
    pub rec: Recognition,
    /// a transact code that is a sentence-wise legal INTEGER but does not fit u32
    pub code_overflow: Vec<usize>,
    /// well-formed: lexable, a sentence of the grammar, all transact codes fit u32
    pub well_formed: bool,
}

pub fn verdict(text: &str) -> Verdict {
    let lexed = lex(text);
    let kinds: Vec<Kind> = lexed.toks.iter().map(|t| t.kind).collect();
    let rec = recognise("Aidl", &kinds);
    let mut code_overflow = Vec::new();
    // `) = INTEGER` occurs only as a method's transact code
    for i in 2..kinds.len() {
        if kinds[i] == Kind::Integer && kinds[i - 1] == Kind::Eq && kinds[i - 2] == Kind::RParen {
            let lexeme = &text[lexed.toks[i].start..lexed.toks[i].end];
            if lexeme.parse::<u32>().is_err() {
                code_overflow.push(i);
            }
        }
    }
    let well_formed = lexed.unlexable.is_none() && rec.accepted && code_overflow.is_empty();
    Verdict {
        lexed,
        kinds,
        rec,
        code_overflow,
        well_formed,
    }
}
