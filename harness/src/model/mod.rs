pub mod doc;
pub mod grammar;
pub mod lex;
pub mod seeds;
pub mod verdict;
