//! Seed documents: six small well-formed documents that together use every production and
//! every token kind of the grammar.

use super::doc::*;

fn sc_int(s: &str) -> Scalar {
    Scalar::Integer(s.into())
}

pub fn annot_with(name: &str, params: Vec<(&str, Option<Scalar>)>, trailing: bool) -> Annot {
    Annot {
        name: name.into(),
        params: Some(
            params
                .into_iter()
                .map(|(k, v)| (k.to_string(), v))
                .collect(),
        ),
        trailing_comma: trailing,
        span: NOSPAN,
    }
}

/// interface-rich
pub fn seed_interface() -> Document {
    let mut item = Item::new(ItemKind::Interface, "IFoo");
    item.annots.push(Annot::simple("@VintfStability"));
    let mut m1 = Method::new(
        Ty::void(),
        "ping",
        vec![
            Arg::new(Some("in"), Ty::prim("int"), Some("a")),
            Arg::new(Some("out"), Ty::array(Ty::custom("a.b.Bar")), None),
        ],
    );
    m1.oneway = true;
    m1.code = Some("1".into());
    m1.annots.push(annot_with(
        "@A",
        vec![("k", Some(sc_int("1"))), ("j", Some(Scalar::Str("\"s\"".into())))],
        true,
    ));
    let mut m2 = Method::new(
        Ty::list(Ty::string()),
        "get",
        vec![Arg::new(
            Some("inout"),
            Ty::map(Ty::string(), Ty::custom("Bar")),
            Some("m"),
        )],
    );
    m2.args[0].annots.push(Annot::simple("@nullable"));
    m2.code = Some("2".into());
    m2.args_trailing_comma = true;
    let c = Const::new(
        Ty::prim("int"),
        "K",
        Value::Braces {
            first: vec![Value::Scalar(sc_int("1")), Value::Scalar(sc_int("2"))],
            rest: vec![Value::Scalar(Scalar::Float("-.5f".into()))],
            trailing: true,
        },
    );
    item.members = vec![
        Member::Method(m1),
        Member::Const(c),
        Member::Method(m2),
        Member::Method(Method::new(Ty::charseq(), "name", vec![])),
    ];
    let mut d = Document::new("com.x", item);
    d.imports.push(Import::new("a.b.Bar"));
    d
}

/// parcelable-rich
pub fn seed_parcelable() -> Document {
    let mut item = Item::new(ItemKind::Parcelable, "P");
    let mut f1 = Field::new(Ty::prim("boolean"), "flag", Some(Value::Scalar(Scalar::Bool(true))));
    f1.annots.push(annot_with("@A", vec![("k", None)], false));
    let f2 = Field::new(Ty::raw_list(), "l", None);
    let f3 = Field::new(
        Ty::map(Ty::string(), Ty::array(Ty::prim("byte"))),
        "m",
        Some(Value::EmptyBraces),
    );
    let f4 = Field::new(Ty::raw_map(), "r", Some(Value::Qual("E".into(), "A".into())));
    let c = Const::new(
        Ty::string(),
        "S",
        Value::Scalar(Scalar::Str("\"x y\"".into())),
    );
    item.members = vec![
        Member::Field(f1),
        Member::Field(f2),
        Member::Const(c),
        Member::Field(f3),
        Member::Field(f4),
    ];
    Document::new("p", item)
}

/// enum-rich
pub fn seed_enum() -> Document {
    let mut item = Item::new(ItemKind::Enum, "E");
    item.annots.push(annot_with(
        "@Backing",
        vec![("type", Some(Scalar::Str("\"int\"".into())))],
        false,
    ));
    let mut e2 = EnumElem::new("B", Some(sc_int("2")));
    e2.annots.push(Annot::simple("@A"));
    item.elems = vec![
        EnumElem::new("A", None),
        e2,
        EnumElem::new("C", Some(Scalar::Float("1.5".into()))),
        EnumElem::new("D", Some(Scalar::Bool(false))),
    ];
    item.elems_trailing_comma = true;
    Document::new("a.b.c", item)
}

/// header-rich
pub fn seed_header() -> Document {
    let mut item = Item::new(ItemKind::Interface, "I");
    item.oneway = true;
    item.members = vec![Member::Method(Method::new(
        Ty::void(),
        "f",
        vec![Arg::new(None, Ty::custom("Q"), Some("q"))],
    ))];
    let mut d = Document::new("a.b", item);
    d.imports.push(Import::new("x.Y"));
    d.imports.push(Import::new("x.y.Z"));
    let mut d1 = Decl::new("Q");
    d1.annots.push(annot_with("@A", vec![], false));
    d.decls.push(d1);
    d.decls.push(Decl::new("r.s.T"));
    d
}

/// minimal interface
pub fn seed_min_interface() -> Document {
    let mut item = Item::new(ItemKind::Interface, "I");
    item.members = vec![Member::Method(Method::new(
        Ty::prim("int"),
        "f",
        vec![Arg::new(None, Ty::string(), None)],
    ))];
    Document::new("p", item)
}

/// minimal parcelable
pub fn seed_min_parcelable() -> Document {
    let mut item = Item::new(ItemKind::Parcelable, "P");
    item.members = vec![Member::Field(Field::new(Ty::prim("int"), "x", None))];
    Document::new("p", item)
}

pub fn all() -> Vec<(&'static str, Document)> {
    vec![
        ("interface", seed_interface()),
        ("parcelable", seed_parcelable()),
        ("enum", seed_enum()),
        ("header", seed_header()),
        ("min_interface", seed_min_interface()),
        ("min_parcelable", seed_min_parcelable()),
    ]
}
