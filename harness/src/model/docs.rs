//! Doc-comment model (C18): paragraphs -> lines -> words, tag clauses; rendering styles; the
//! documentation string the library is documented to extract.

#[derive(Clone, Debug, PartialEq)]
pub struct DocShape {
    /// paragraphs -> lines (each line: words joined by one space)
    pub paras: Vec<Vec<String>>,
    /// tag clauses, e.g. "@param x Größe"
    pub tags: Vec<String>,
}

#[derive(Clone, Copy, Debug, PartialEq)]
pub enum Style {
    /// `/**text*/`
    Compact,
    /// `/** text */`
    OneLine,
    /// multi-line with ` * ` decoration
    Starred,
    /// multi-line without decoration
    Bare,
}

impl DocShape {
    pub fn expected(&self) -> String {
        let mut parts: Vec<String> = self.paras.iter().map(|p| p.join(" ")).collect();
        // inside a tag clause a line break is a continuation line (joined by one space); a
        // leading line break stands for a blank line in front of the clause (no effect on the text)
        parts.extend(self.tags.iter().map(|t| t.trim_start_matches('\n').replace('\n', " ")));
        parts.join("\n")
    }
    pub fn fits(&self, style: Style) -> bool {
        match style {
            Style::Compact | Style::OneLine => {
                self.paras.len() <= 1
                    && self.paras.iter().all(|p| p.len() == 1)
                    && (self.paras.len() + self.tags.len() >= 1 || style == Style::OneLine)
                    && self.tags.iter().all(|t| !t.contains('\n'))
            }
            _ => true,
        }
    }
    /// the comment text, with `eol` as line break
    pub fn render(&self, style: Style, eol: &str, indent: &str) -> String {
        match style {
            Style::Compact | Style::OneLine => {
                let mut words: Vec<String> = self.paras.iter().map(|p| p.join(" ")).collect();
                words.extend(self.tags.iter().cloned());
                let t = words.join(" ");
                if style == Style::Compact {
                    format!("/**{t}*/")
                } else if t.is_empty() {
                    "/** */".to_string()
                } else {
                    format!("/** {t} */")
                }
            }
            Style::Starred => {
                let mut s = format!("/**{eol}");
                for (i, p) in self.paras.iter().enumerate() {
                    if i > 0 {
                        s.push_str(&format!("{indent} *{eol}"));
                    }
                    for l in p {
                        s.push_str(&format!("{indent} * {l}{eol}"));
                    }
                }
                for t in &self.tags {
                    if t.starts_with('\n') {
                        s.push_str(&format!("{indent} *{eol}"));
                    }
                    for (k, l) in t.trim_start_matches('\n').split('\n').enumerate() {
                        s.push_str(&format!("{indent} * {}{l}{eol}", if k > 0 { "  " } else { "" }));
                    }
                }
                s.push_str(&format!("{indent} */"));
                s
            }
            Style::Bare => {
                let mut s = format!("/**{eol}");
                for (i, p) in self.paras.iter().enumerate() {
                    if i > 0 {
                        s.push_str(eol);
                    }
                    for l in p {
                        s.push_str(&format!("{indent}   {l}{eol}"));
                    }
                }
                for t in &self.tags {
                    if t.starts_with('\n') {
                        s.push_str(eol);
                    }
                    for l in t.trim_start_matches('\n').split('\n') {
                        s.push_str(&format!("{indent}   {l}{eol}"));
                    }
                }
                s.push_str(&format!("{indent}*/"));
                s
            }
        }
    }
}

pub const LINES: [&str; 4] = ["w", "Größe", "日本 😀", "é w"];

/// The complete shape space: first paragraph = all line lists of length 1..=2 over 4 lines,
/// second paragraph in {none, [w], [日本 😀, é w]}, tags in {none, [@param], [@param, @return]},
/// plus the empty doc and tag-only docs.
pub fn all_shapes() -> Vec<DocShape> {
    let mut firsts: Vec<Vec<String>> = Vec::new();
    for a in LINES {
        firsts.push(vec![a.to_string()]);
        for b in LINES {
            firsts.push(vec![a.to_string(), b.to_string()]);
        }
    }
    let seconds: Vec<Option<Vec<String>>> = vec![
        None,
        Some(vec!["w".to_string()]),
        Some(vec!["日本 😀".to_string(), "é w".to_string()]),
    ];
    let tagsets: Vec<Vec<String>> = vec![
        vec![],
        vec!["@param x Größe".to_string()],
        vec!["@param x é".to_string(), "@return 日本".to_string()],
        // a blank line in front of the tags, clauses continued on further lines
        vec!["\n@param x the door\nidentifier é".to_string(), "@return 日本\nw\nw".to_string()],
    ];
    let mut v = Vec::new();
    for f in &firsts {
        for s in &seconds {
            for t in &tagsets {
                let mut paras = vec![f.clone()];
                if let Some(s) = s {
                    paras.push(s.clone());
                }
                v.push(DocShape {
                    paras,
                    tags: t.clone(),
                });
            }
        }
    }
    v.push(DocShape {
        paras: vec![],
        tags: vec![],
    });
    v.push(DocShape {
        paras: vec![],
        tags: vec!["@return w".to_string()],
    });
    v
}

pub fn representative_shapes() -> Vec<DocShape> {
    let all = all_shapes();
    vec![
        all[0].clone(),
        all[12 + 5].clone(),
        all[(5 * 12) + 10].clone(),
        // blank line before the tags, continued tag clauses
        all[11].clone(),
        all[all.len() - 2].clone(),
        DocShape {
            paras: vec![vec!["Größe".into()]],
            tags: vec![],
        },
        DocShape {
            paras: vec![vec!["é".into(), "日本".into()], vec!["😀 w".into()]],
            tags: vec!["@param x w".into()],
        },
    ]
}
