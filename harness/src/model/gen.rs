//! E-DOC: finite families of well-formed documents, each enumerated completely.

use super::doc::*;
use super::seeds::annot_with;

pub const TYPE_LEAVES: [&str; 10] = [
    "void", "int", "String", "CharSequence", "List", "Map", "Foo", "a.b.Foo", "inout2", "Listing",
];

pub fn leaf(name: &str) -> Ty {
    match name {
        "void" => Ty::void(),
        "String" => Ty::string(),
        "CharSequence" => Ty::charseq(),
        "List" => Ty::raw_list(),
        "Map" => Ty::raw_map(),
        "byte" | "short" | "int" | "long" | "float" | "double" | "boolean" | "char" => {
            Ty::prim(name)
        }
        other => Ty::custom(other),
    }
}

/// wrap `t` with constructor c: 0 `t[]`, 1 `List<t>`, 2 `Map<String,t>`, 3 `Map<t,String>`
pub fn wrap(c: usize, t: Ty) -> Ty {
    match c {
        0 => Ty::array(t),
        1 => Ty::list(t),
        2 => Ty::map(Ty::string(), t),
        _ => Ty::map(t, Ty::string()),
    }
}

/// All types built from the leaves by unary chains of depth 0..=depth (innermost first).
pub fn chain_types(leaves: &[&str], depth: usize) -> Vec<Ty> {
    let mut out = Vec::new();
    for l in leaves {
        let mut level: Vec<Ty> = vec![leaf(l)];
        out.push(leaf(l));
        for _ in 0..depth {
            let mut next = Vec::new();
            for t in &level {
                for c in 0..4 {
                    next.push(wrap(c, t.clone()));
                }
            }
            out.extend(next.iter().cloned());
            level = next;
        }
    }
    out
}

/// All binary maps over operands of depth <= 1.
pub fn binary_maps(leaves: &[&str]) -> Vec<Ty> {
    let ops = chain_types(leaves, 1);
    let mut out = Vec::new();
    for k in &ops {
        for v in &ops {
            out.push(Ty::map(k.clone(), v.clone()));
        }
    }
    out
}

/// Pack types into documents: position 0 return type, 1 argument, 2 field, 3 constant type.
pub fn docs_for_types(types: &[Ty], per_file: usize, position: usize) -> Vec<Document> {
    let mut docs = Vec::new();
    for chunk in types.chunks(per_file) {
        let mut item = match position {
            2 => Item::new(ItemKind::Parcelable, "P"),
            _ => Item::new(ItemKind::Interface, "I"),
        };
        for (i, t) in chunk.iter().enumerate() {
            let name = format!("n{i}");
            item.members.push(match position {
                0 => Member::Method(Method::new(t.clone(), &name, vec![])),
                1 => Member::Method(Method::new(
                    Ty::void(),
                    &name,
                    vec![Arg::new(None, t.clone(), Some("a"))],
                )),
                2 => Member::Field(Field::new(t.clone(), &name, None)),
                _ => Member::Const(Const::new(
                    t.clone(),
                    &name,
                    Value::Scalar(Scalar::Integer("1".into())),
                )),
            });
        }
        docs.push(Document::new("p.q", item));
    }
    docs
}

pub fn scalars() -> Vec<Scalar> {
    vec![
        Scalar::Integer("7".into()),
        Scalar::Integer("007".into()),
        Scalar::Integer("0".into()),
        Scalar::Integer("2147483647".into()),
        Scalar::Integer("2147483648".into()),
        Scalar::Integer("16777215".into()),
        Scalar::Integer("4294967296".into()),
        Scalar::Integer("99999999999999999999999999".into()),
        Scalar::Float("1.5".into()),
        Scalar::Float("0.0".into()),
        Scalar::Float("-0".into()),
        Scalar::Float("10f".into()),
        Scalar::Float(".5".into()),
        Scalar::Float("-.5f".into()),
        Scalar::Float("+1".into()),
        Scalar::Float("-3".into()),
        Scalar::Float("1f".into()),
        Scalar::Str("\"\"".into()),
        Scalar::Str("\"a b\"".into()),
        Scalar::Str("\"é日😀\"".into()),
        Scalar::Str("\"//x\"".into()),
        Scalar::Str("\"/*\"".into()),
        Scalar::Str("\"*/ }\"".into()),
        Scalar::Str("\"C:\\\"".into()),
        Scalar::Str("\"@param {x} <a href='mailto:a@b.c'>\"".into()),
        Scalar::Str("\" leading and trailing \"".into()),
        Scalar::Str("\"\t tab\"".into()),
        Scalar::Bool(true),
        Scalar::Bool(false),
    ]
}

pub fn values() -> Vec<Value> {
    let i = |s: &str| Value::Scalar(Scalar::Integer(s.into()));
    let mut v: Vec<Value> = scalars().into_iter().map(Value::Scalar).collect();
    v.push(Value::EmptyBraces);
    v.push(Value::Braces {
        first: vec![i("1")],
        rest: vec![],
        trailing: false,
    });
    v.push(Value::Braces {
        first: vec![i("1")],
        rest: vec![],
        trailing: true,
    });
    v.push(Value::Braces {
        first: vec![i("1"), i("2")],
        rest: vec![i("3")],
        trailing: true,
    });
    v.push(Value::Braces {
        first: vec![Value::Braces {
            first: vec![i("1")],
            rest: vec![],
            trailing: false,
        }],
        rest: vec![Value::Scalar(Scalar::Str("\"s\"".into()))],
        trailing: false,
    });
    v.push(Value::Braces {
        first: vec![Value::EmptyBraces, Value::Qual("A".into(), "B".into())],
        rest: vec![Value::Scalar(Scalar::Bool(true))],
        trailing: false,
    });
    v.push(Value::Qual("A".into(), "B".into()));
    v.push(Value::Qual("int_".into(), "Listing".into()));
    v
}

/// Every value form in constant and field-default position; scalars in enum and annotation
/// value position.
pub fn docs_for_values() -> Vec<Document> {
    let mut docs = Vec::new();
    let vals = values();
    let mut ci = Item::new(ItemKind::Interface, "I");
    let mut pi = Item::new(ItemKind::Parcelable, "P");
    for (i, v) in vals.iter().enumerate() {
        ci.members.push(Member::Const(Const::new(
            Ty::prim("int"),
            &format!("K{i}"),
            v.clone(),
        )));
        pi.members.push(Member::Field(Field::new(
            Ty::string(),
            &format!("f{i}"),
            Some(v.clone()),
        )));
        pi.members.push(Member::Const(Const::new(
            Ty::string(),
            &format!("C{i}"),
            v.clone(),
        )));
    }
    docs.push(Document::new("p", ci));
    docs.push(Document::new("p", pi));
    let mut ei = Item::new(ItemKind::Enum, "E");
    for (i, s) in scalars().into_iter().enumerate() {
        ei.elems.push(EnumElem::new(&format!("V{i}"), Some(s)));
    }
    ei.elems.push(EnumElem::new("LAST", None));
    docs.push(Document::new("p", ei.clone()));
    ei.elems_trailing_comma = true;
    docs.push(Document::new("p", ei));
    // annotation values
    let mut ai = Item::new(ItemKind::Interface, "I");
    for (i, s) in scalars().into_iter().enumerate() {
        let mut m = Method::new(Ty::void(), &format!("m{i}"), vec![]);
        m.annots
            .push(annot_with("@A", vec![("k", Some(s))], i % 2 == 0));
        ai.members.push(Member::Method(m));
    }
    docs.push(Document::new("p", ai));
    // single-value documents (unpacked) for each value
    for v in vals {
        let mut it = Item::new(ItemKind::Interface, "I");
        it.members.push(Member::Const(Const::new(
            Ty::prim("int"),
            "K",
            v.clone(),
        )));
        docs.push(Document::new("p", it));
    }
    docs
}

pub fn annotation_forms() -> Vec<Vec<Annot>> {
    let i1 = Some(Scalar::Integer("1".into()));
    let s = Some(Scalar::Str("\"s\"".into()));
    let v = vec![
        vec![],
        vec![Annot::simple("@A")],
        vec![annot_with("@A", vec![], false)],
        vec![annot_with("@A", vec![("k", None)], false)],
        vec![annot_with("@A", vec![("k", i1.clone())], false)],
        vec![annot_with(
            "@A",
            vec![("k", i1.clone()), ("j", s.clone())],
            true,
        )],
        vec![annot_with(
            "@A",
            vec![("k", i1.clone()), ("k", s.clone())],
            false,
        )],
        vec![annot_with(
            "@A",
            vec![("k", i1.clone()), ("k", None)],
            false,
        )],
        vec![Annot::simple("@A"), Annot::simple("@_b2")],
        vec![
            annot_with("@A", vec![("inout2", Some(Scalar::Bool(false)))], false),
            annot_with("@B", vec![("x", Some(Scalar::Float("-.5f".into())))], true),
        ],
        // parameter names that differ in letter case only
        vec![annot_with("@Permission", vec![("id", s.clone()), ("ID", i1.clone()), ("Id", None)], false)],
    ];
    let mut v = v;
    // well-known annotation names, each bare / with an empty list / with a foreign key / with
    // its usual key (data values: a validation step keyed on the name must cope with all of them)
    for (name, key) in [
        ("@Backing", "type"),
        ("@nullable", "heap"),
        ("@utf8InCpp", "x"),
        ("@VintfStability", "x"),
        ("@JavaDerive", "toString"),
        ("@Descriptor", "value"),
        ("@Hide", "x"),
        ("@Deprecated", "note"),
        ("@SuppressWarnings", "value"),
        ("@FixedSize", "x"),
        ("@JavaPassthrough", "annotation"),
        ("@EnforcePermission", "value"),
        ("@UnsupportedAppUsage", "maxTargetSdk"),
        ("@JavaOnlyStableParcelable", "x"),
    ] {
        v.push(vec![Annot::simple(name)]);
        v.push(vec![annot_with(name, vec![], false)]);
        v.push(vec![annot_with(name, vec![("size", s.clone())], false)]);
        v.push(vec![annot_with(name, vec![(key, Some(Scalar::Str("\"int\"".into())))], false)]);
        v.push(vec![annot_with(name, vec![(key, None)], true)]);
    }
    v
}

/// Each annotation form on item / member / argument / forward declaration / enum element.
pub fn docs_for_annotations() -> Vec<Document> {
    docs_for_annotation_forms(&annotation_forms()[..12])
}

/// The same positions with well-known annotation names (bare, empty list, foreign key, usual key).
pub fn docs_for_known_annotations() -> Vec<Document> {
    docs_for_annotation_forms(&annotation_forms()[12..])
}

fn docs_for_annotation_forms(forms: &[Vec<Annot>]) -> Vec<Document> {
    let mut docs = Vec::new();
    for an in forms.iter().cloned() {
        for kind in [ItemKind::Interface, ItemKind::Parcelable, ItemKind::Enum] {
            let mut it = Item::new(kind, "X");
            it.annots = an.clone();
            match kind {
                ItemKind::Interface => {
                    let mut m = Method::new(
                        Ty::void(),
                        "f",
                        vec![Arg::new(Some("in"), Ty::prim("int"), Some("a")), Arg::new(None, Ty::string(), None)],
                    );
                    m.annots = an.clone();
                    m.args[0].annots = an.clone();
                    m.args[1].annots = an.clone();
                    let mut m2 = m.clone();
                    m2.name = "g".into();
                    m2.oneway = true;
                    let mut c = Const::new(Ty::prim("int"), "K", Value::Scalar(Scalar::Integer("1".into())));
                    c.annots = an.clone();
                    it.members = vec![Member::Method(m), Member::Const(c), Member::Method(m2)];
                    let mut oit = it.clone();
                    oit.oneway = true;
                    let mut d = Document::new("p", oit);
                    let mut dc = Decl::new("Q");
                    dc.annots = an.clone();
                    d.decls.push(dc);
                    docs.push(d);
                }
                ItemKind::Parcelable => {
                    let mut f = Field::new(Ty::prim("int"), "x", None);
                    f.annots = an.clone();
                    let mut f2 = Field::new(Ty::custom("a.B"), "y", Some(Value::EmptyBraces));
                    f2.annots = an.clone();
                    it.members = vec![Member::Field(f), Member::Field(f2)];
                }
                ItemKind::Enum => {
                    let mut e = EnumElem::new("A", None);
                    e.annots = an.clone();
                    let mut e2 = EnumElem::new("B", Some(Scalar::Integer("2".into())));
                    e2.annots = an.clone();
                    it.elems = vec![e, e2];
                }
            }
            let mut d = Document::new("p", it);
            let mut dc = Decl::new("r.Q");
            dc.annots = an.clone();
            d.decls.push(dc);
            docs.push(d);
        }
    }
    docs
}

/// Member forms per item kind (index-addressable alphabets for member sequences).
pub fn interface_member_forms() -> Vec<Member> {
    let mut v = Vec::new();
    let m0 = Method::new(Ty::void(), "a", vec![]);
    v.push(Member::Method(m0.clone()));
    let mut m1 = Method::new(Ty::prim("int"), "b", vec![Arg::new(None, Ty::prim("int"), None)]);
    m1.oneway = true;
    v.push(Member::Method(m1));
    let mut m2 = Method::new(
        Ty::list(Ty::string()),
        "c",
        vec![
            Arg::new(Some("in"), Ty::array(Ty::prim("byte")), Some("x")),
            Arg::new(Some("out"), Ty::custom("a.B"), Some("y")),
        ],
    );
    m2.code = Some("12".into());
    v.push(Member::Method(m2));
    let mut m3 = Method::new(Ty::custom("Foo"), "d", vec![Arg::new(Some("inout"), Ty::raw_map(), None)]);
    m3.args_trailing_comma = true;
    m3.annots.push(Annot::simple("@A"));
    v.push(Member::Method(m3));
    let mut m4 = Method::new(Ty::void(), "e", vec![]);
    m4.oneway = true;
    m4.code = Some("0".into());
    m4.annots.push(annot_with("@A", vec![("k", Some(Scalar::Integer("1".into())))], false));
    v.push(Member::Method(m4));
    v.push(Member::Const(Const::new(
        Ty::prim("int"),
        "K",
        Value::Scalar(Scalar::Integer("3".into())),
    )));
    let mut c2 = Const::new(Ty::string(), "S", Value::Scalar(Scalar::Str("\"v\"".into())));
    c2.annots.push(Annot::simple("@A"));
    v.push(Member::Const(c2));
    v.push(Member::Const(Const::new(
        Ty::array(Ty::prim("int")),
        "ARR",
        Value::Braces {
            first: vec![Value::Scalar(Scalar::Integer("1".into()))],
            rest: vec![Value::Scalar(Scalar::Integer("2".into()))],
            trailing: false,
        },
    )));
    v
}

pub fn parcelable_member_forms() -> Vec<Member> {
    let mut v = Vec::new();
    v.push(Member::Field(Field::new(Ty::prim("int"), "a", None)));
    v.push(Member::Field(Field::new(
        Ty::string(),
        "b",
        Some(Value::Scalar(Scalar::Str("\"x\"".into()))),
    )));
    let mut f = Field::new(Ty::list(Ty::custom("a.B")), "c", None);
    f.annots.push(Annot::simple("@nullable"));
    v.push(Member::Field(f));
    v.push(Member::Field(Field::new(
        Ty::map(Ty::string(), Ty::array(Ty::prim("byte"))),
        "d",
        Some(Value::EmptyBraces),
    )));
    v.push(Member::Field(Field::new(Ty::array(Ty::custom("Foo")), "e", None)));
    v.push(Member::Field(Field::new(
        Ty::custom("E"),
        "f",
        Some(Value::Qual("E".into(), "A".into())),
    )));
    v.push(Member::Const(Const::new(
        Ty::prim("int"),
        "K",
        Value::Scalar(Scalar::Integer("3".into())),
    )));
    let mut c2 = Const::new(Ty::string(), "S", Value::Scalar(Scalar::Str("\"v\"".into())));
    c2.annots.push(annot_with("@A", vec![("k", None)], false));
    v.push(Member::Const(c2));
    v
}

pub fn enum_elem_forms() -> Vec<EnumElem> {
    let mut v = vec![
        EnumElem::new("A", None),
        EnumElem::new("B", Some(Scalar::Integer("1".into()))),
        EnumElem::new("C", Some(Scalar::Str("\"s\"".into()))),
        EnumElem::new("D", Some(Scalar::Float("-.5f".into()))),
        EnumElem::new("E", Some(Scalar::Bool(true))),
    ];
    let mut e = EnumElem::new("F", None);
    e.annots.push(Annot::simple("@A"));
    v.push(e);
    v
}

/// Rename members so that names in one document are unique (keeps the form otherwise).
fn uniq_member(m: &Member, i: usize) -> Member {
    let mut m = m.clone();
    match &mut m {
        Member::Method(x) => x.name = format!("{}{}", x.name, i),
        Member::Const(x) => x.name = format!("{}{}", x.name, i),
        Member::Field(x) => x.name = format!("{}{}", x.name, i),
    }
    m
}

/// All member sequences of length 0..=max for the given item kind (enum: with and without a
/// trailing comma; interface: plain and oneway).
pub fn docs_for_member_sequences(kind: ItemKind, max: usize) -> Vec<Document> {
    let mut docs = Vec::new();
    match kind {
        ItemKind::Enum => {
            let forms = enum_elem_forms();
            let n = crate::engine::seq_total(forms.len(), max);
            for i in 0..n {
                let seq = crate::engine::seq_at(i, forms.len(), max);
                for trailing in [false, true] {
                    if trailing && seq.is_empty() {
                        continue;
                    }
                    let mut it = Item::new(ItemKind::Enum, "E");
                    it.elems = seq
                        .iter()
                        .enumerate()
                        .map(|(j, f)| {
                            let mut e = forms[*f].clone();
                            e.name = format!("{}{}", e.name, j);
                            e
                        })
                        .collect();
                    it.elems_trailing_comma = trailing;
                    docs.push(Document::new("p", it));
                }
            }
        }
        _ => {
            let forms = if kind == ItemKind::Interface {
                interface_member_forms()
            } else {
                parcelable_member_forms()
            };
            let n = crate::engine::seq_total(forms.len(), max);
            for i in 0..n {
                let seq = crate::engine::seq_at(i, forms.len(), max);
                let mut it = Item::new(kind, "X");
                it.members = seq
                    .iter()
                    .enumerate()
                    .map(|(j, f)| uniq_member(&forms[*f], j))
                    .collect();
                docs.push(Document::new("p.q", it.clone()));
                if kind == ItemKind::Interface && seq.len() <= 2 {
                    it.oneway = true;
                    docs.push(Document::new("p.q", it));
                }
            }
        }
    }
    docs
}

/// Argument lists: all lists of length 0..=2 over direction(4) x annotation(2) x named(2) x
/// type(3), with and without a trailing comma; length 3 over a reduced alphabet.
pub fn docs_for_argument_lists() -> Vec<Document> {
    let dirs = [None, Some("in"), Some("out"), Some("inout")];
    let tys = [Ty::prim("int"), Ty::array(Ty::custom("a.B")), Ty::map(Ty::string(), Ty::raw_list())];
    let mut alpha: Vec<Arg> = Vec::new();
    for d in dirs {
        for an in [false, true] {
            for named in [false, true] {
                for t in &tys {
                    let mut a = Arg::new(d, t.clone(), if named { Some("x") } else { None });
                    if an {
                        a.annots.push(Annot::simple("@A"));
                    }
                    alpha.push(a);
                }
            }
        }
    }
    let mut lists: Vec<(Vec<Arg>, bool)> = Vec::new();
    lists.push((vec![], false));
    for a in &alpha {
        lists.push((vec![a.clone()], false));
        lists.push((vec![a.clone()], true));
    }
    for a in &alpha {
        for b in &alpha {
            lists.push((vec![a.clone(), b.clone()], false));
        }
    }
    for (i, a) in alpha.iter().enumerate() {
        let b = &alpha[(i * 7 + 3) % alpha.len()];
        lists.push((vec![a.clone(), b.clone()], true));
    }
    let small: Vec<&Arg> = vec![&alpha[0], &alpha[4], &alpha[17], &alpha[31], &alpha[47]];
    for a in &small {
        for b in &small {
            for c in &small {
                lists.push((vec![(*a).clone(), (*b).clone(), (*c).clone()], false));
                lists.push((vec![(*a).clone(), (*b).clone(), (*c).clone()], true));
            }
        }
    }
    // pack 12 methods per interface
    let mut docs = Vec::new();
    for chunk in lists.chunks(12) {
        let mut it = Item::new(ItemKind::Interface, "I");
        for (i, (args, trailing)) in chunk.iter().enumerate() {
            let mut args = args.clone();
            for (j, a) in args.iter_mut().enumerate() {
                if a.name.is_some() {
                    a.name = Some(format!("x{j}"));
                }
            }
            let mut m = Method::new(Ty::void(), &format!("f{i}"), args);
            m.args_trailing_comma = *trailing;
            it.members.push(Member::Method(m));
        }
        docs.push(Document::new("p", it));
    }
    docs
}

/// Header forms: package depth 1-3 x import lists <= 3 x forward-declaration lists <= 2.
pub fn docs_for_headers() -> Vec<Document> {
    let pkgs = ["p", "p.q", "com.example.deep"];
    let imports = ["a.B", "a.b.c.D", "x.Y"];
    let decls = ["Q", "r.s.T"];
    let mut docs = Vec::new();
    for pk in pkgs {
        for ni in 0..=3 {
            // all ordered selections with repetition of length ni
            let n = crate::engine::pow(imports.len(), ni);
            for ii in 0..n {
                let isel = crate::engine::digits(ii, imports.len(), ni);
                for nd in 0..=2 {
                    let m = crate::engine::pow(decls.len(), nd);
                    for di in 0..m {
                        let dsel = crate::engine::digits(di, decls.len(), nd);
                        let mut d = Document::new(pk, Item::new(ItemKind::Parcelable, "P"));
                        d.imports = isel.iter().map(|i| Import::new(imports[*i])).collect();
                        d.decls = dsel
                            .iter()
                            .enumerate()
                            .map(|(k, i)| {
                                let mut dc = Decl::new(decls[*i]);
                                if k == 1 {
                                    dc.annots.push(Annot::simple("@A"));
                                }
                                dc
                            })
                            .collect();
                        docs.push(d);
                    }
                }
            }
        }
    }
    docs
}

pub const NEAR_KEYWORD_NAMES: [&str; 45] = [
    "inout2", "int_", "Listing", "voidx", "_package", "In", "string", "trueish", "Mapx", "oneway_",
    // data values outside the small alphabets: underscores and digits, one character, words that
    // begin with a keyword / contextual word / built-in name, letter-case variants
    "_", "__", "_x", "x_1", "X9", "a", "Z", "interfaceFoo", "importer", "parcelableX", "enumX", "constant",
    "input", "outer", "inner", "inoutX", "List2", "MapEntry", "Strings", "CharSequence2", "byteX",
    "falsey", "FOO", "foo", "Foo", "fOO", "IBinder2", "ParcelableHolderX", "android", "os", "I", "packages",
    "voidPtr", "Array", "a_very_long_identifier_that_goes_on_and_on_0123456789_a_very_long_identifier_that_goes_on_and_on_0123456789_abcdefghij",
];

/// Words that are keywords or well-known names in other languages (Java words the grammar does not
/// reserve, C++, Rust, Python, Kotlin, newer AIDL) - all plain identifiers here.
pub const FOREIGN_WORDS: [&str; 112] = [
    "abstract", "assert", "extends", "final", "finally", "implements", "instanceof", "native", "strictfp", "super",
    "synchronized", "throws", "transient", "null", "var", "record", "sealed", "permits", "yield", "module",
    "auto", "bool", "delete", "friend", "inline", "namespace", "operator", "template", "typedef", "union",
    "unsigned", "using", "virtual", "signed", "sizeof", "struct", "register", "explicit", "export", "extern",
    "mutable", "typename", "nullptr", "noexcept", "constexpr", "decltype", "wchar_t", "size_t", "uint8_t", "std",
    "as", "async", "await", "crate", "dyn", "fn", "impl", "let", "loop", "match",
    "mod", "move", "mut", "pub", "ref", "self", "Self", "trait", "type", "unsafe",
    "use", "where", "def", "lambda", "None", "pass", "with", "from", "global", "is",
    "not", "or", "and", "del", "elif", "except", "fun", "val", "when", "object",
    "companion", "nullable", "utf8InCpp", "cpp_header", "ndk_header", "rust_type", "Object", "Integer", "Boolean", "Void",
    "VOID", "Int", "string_", "list", "map", "Parcelable", "Interface", "Enum", "Package", "Import",
    "Oneway", "Const",
];

/// Every identifier slot filled with each foreign word.
pub fn docs_for_foreign_words() -> Vec<Document> {
    docs_for_words(&FOREIGN_WORDS)
}

/// Every identifier slot filled with each near-keyword.
pub fn docs_for_names() -> Vec<Document> {
    docs_for_words(&NEAR_KEYWORD_NAMES)
}

fn docs_for_words(words: &[&str]) -> Vec<Document> {
    let mut docs = Vec::new();
    for w in words.iter().copied() {
        // interface with the word everywhere
        let mut it = Item::new(ItemKind::Interface, w);
        let mut m = Method::new(
            Ty::custom(&format!("{w}.{w}")),
            w,
            vec![Arg::new(Some("in"), Ty::custom(w), Some(w))],
        );
        m.annots
            .push(annot_with("@A", vec![(w, Some(Scalar::Integer("1".into())))], false));
        it.members.push(Member::Method(m));
        it.members.push(Member::Const(Const::new(
            Ty::prim("int"),
            w,
            Value::Qual(w.into(), w.into()),
        )));
        let mut d = Document::new(&format!("{w}.{w}"), it);
        d.imports.push(Import::new(&format!("{w}.{w}")));
        d.imports.push(Import::new(&format!("a.{w}.B")));
        d.decls.push(Decl::new(w));
        d.decls.push(Decl::new(&format!("{w}.x.{w}")));
        docs.push(d);
        let mut pi = Item::new(ItemKind::Parcelable, w);
        pi.members.push(Member::Field(Field::new(Ty::custom(w), w, None)));
        // the word as array element, nested array element and map value too
        pi.members.push(Member::Field(Field::new(Ty::array(Ty::custom(w)), "arr", None)));
        pi.members.push(Member::Field(Field::new(Ty::list(Ty::array(Ty::custom(w))), "larr", None)));
        pi.members.push(Member::Field(Field::new(Ty::map(Ty::string(), Ty::custom(&format!("{w}.{w}"))), "m", None)));
        docs.push(Document::new(w, pi));
        let mut ei = Item::new(ItemKind::Enum, w);
        ei.elems.push(EnumElem::new(w, None));
        ei.elems.push(EnumElem::new(&format!("{w}2"), Some(Scalar::Integer("1".into()))));
        docs.push(Document::new(w, ei));
    }
    docs
}

/// Size family: documents in which one dimension (members, arguments, imports, enum elements,
/// annotation parameters, name segments, value elements, nesting depth) grows 1, 2, 4 ... 64.
pub fn docs_for_sizes() -> Vec<Document> {
    let mut docs = Vec::new();
    for n in [1usize, 2, 3, 4, 5, 8, 9, 16, 17, 32, 33, 64] {
        // members
        let mut it = Item::new(ItemKind::Interface, "I");
        for i in 0..n {
            let mut m = Method::new(Ty::prim("int"), &format!("m{i}"), vec![Arg::new(Some("in"), Ty::string(), Some("a"))]);
            m.code = Some(format!("{i}"));
            it.members.push(Member::Method(m));
        }
        docs.push(Document::new("p", it));
        // arguments
        let mut it = Item::new(ItemKind::Interface, "I");
        let args: Vec<Arg> = (0..n)
            .map(|i| {
                let mut a = Arg::new([None, Some("in"), Some("out"), Some("inout")][i % 4], [Ty::prim("int"), Ty::array(Ty::custom("a.B")), Ty::list(Ty::string())][i % 3].clone(), if i % 5 == 4 { None } else { Some("x") });
                if let Some(nm) = &mut a.name {
                    *nm = format!("x{i}");
                }
                if i % 7 == 6 {
                    a.annots.push(Annot::simple("@A"));
                }
                a
            })
            .collect();
        let mut m = Method::new(Ty::void(), "f", args);
        m.args_trailing_comma = n % 2 == 0;
        it.members.push(Member::Method(m));
        docs.push(Document::new("p", it));
        // imports and forward declarations
        let mut d = Document::new("p", Item::new(ItemKind::Parcelable, "P"));
        for i in 0..n {
            d.imports.push(Import::new(&format!("a.b{}.C{i}", i % 3)));
            d.decls.push(Decl::new(&if i % 2 == 0 { format!("Q{i}") } else { format!("r.Q{i}") }));
        }
        docs.push(d);
        // enum elements
        let mut it = Item::new(ItemKind::Enum, "E");
        for i in 0..n {
            it.elems.push(EnumElem::new(&format!("V{i}"), if i % 2 == 0 { Some(Scalar::Integer(format!("{i}"))) } else { None }));
        }
        it.elems_trailing_comma = n % 2 == 1;
        docs.push(Document::new("p", it));
        // annotation parameters, package segments, value elements, nesting depth, fields
        let mut it = Item::new(ItemKind::Parcelable, "P");
        it.annots.push(annot_with(
            "@A",
            (0..n).map(|i| (Box::leak(format!("k{i}").into_boxed_str()) as &str, if i % 2 == 0 { Some(Scalar::Integer(format!("{i}"))) } else { None })).collect(),
            n % 2 == 0,
        ));
        let mut t = Ty::custom(&(0..n).map(|i| format!("s{i}")).collect::<Vec<_>>().join("."));
        for i in 0..n.min(24) {
            t = wrap(i % 4, t);
        }
        it.members.push(Member::Field(Field::new(t, "deep", None)));
        it.members.push(Member::Const(Const::new(
            Ty::array(Ty::prim("int")),
            "K",
            Value::Braces {
                first: (0..n).map(|i| Value::Scalar(Scalar::Integer(format!("{i}")))).collect(),
                rest: (0..n / 2).map(|i| Value::Scalar(Scalar::Integer(format!("{i}")))).collect(),
                trailing: n % 2 == 0,
            },
        )));
        for i in 0..n {
            it.members.push(Member::Field(Field::new(Ty::prim("int"), &format!("f{i}"), None)));
        }
        docs.push(Document::new(&(0..n).map(|i| format!("pk{i}")).collect::<Vec<_>>().join("."), it));
    }
    docs
}
