//! Reference traversal order of a document model (C15 / C16 / C17).

use super::doc::*;
use serde::{Deserialize, Serialize};

#[derive(Serialize, Deserialize, Clone, Debug, PartialEq)]
pub struct RefSym {
    /// Package Import Interface Parcelable Enum Method Arg Const Field EnumElement Type
    pub kind: String,
    pub name: Option<String>,
    /// byte span of the name range
    pub start: usize,
    pub end: usize,
    /// 0: item, 1: direct member of the item, 2: everything else
    pub level: u8,
    /// qualified name per the statement of C17 (None where the statement defines none here)
    pub qualified: Option<String>,
    /// type symbols: path in the range-collector scheme
    pub path: Option<String>,
}

fn span(r: &Rendered, first: usize, last: usize) -> (usize, usize) {
    (r.start(first), r.end(last))
}

fn visit_type(out: &mut Vec<RefSym>, r: &Rendered, t: &Ty, path: &str) {
    let me = |out: &mut Vec<RefSym>| {
        let (s, e) = span(r, t.sym.first, t.sym.last);
        out.push(RefSym {
            kind: "Type".into(),
            name: Some(t.stored_name()),
            start: s,
            end: e,
            level: 2,
            qualified: None,
            path: Some(path.to_string()),
        });
    };
    if let TyKind::Array(_) = t.kind {
        for (i, c) in t.children().iter().enumerate() {
            visit_type(out, r, c, &format!("{path}.g{i}"));
        }
        me(out);
    } else {
        me(out);
        for (i, c) in t.children().iter().enumerate() {
            visit_type(out, r, c, &format!("{path}.g{i}"));
        }
    }
}

/// The symbols of the most detailed traversal, in order.
pub fn reference_symbols(doc: &Document, r: &Rendered) -> Vec<RefSym> {
    let mut out = Vec::new();
    let (s, e) = span(r, doc.pkg_name_span.first, doc.pkg_name_span.last);
    out.push(RefSym {
        kind: "Package".into(),
        name: Some(doc.package_name()),
        start: s,
        end: e,
        level: 2,
        qualified: Some(doc.package_name()),
        path: None,
    });
    for i in &doc.imports {
        let (s, e) = span(r, i.name_span.first, i.name_span.last);
        out.push(RefSym {
            kind: "Import".into(),
            name: Some(i.qualified()),
            start: s,
            end: e,
            level: 2,
            qualified: Some(i.qualified()),
            path: None,
        });
    }
    let it = &doc.item;
    let (s, e) = span(r, it.name_tok, it.name_tok);
    out.push(RefSym {
        kind: match it.kind {
            ItemKind::Interface => "Interface",
            ItemKind::Parcelable => "Parcelable",
            ItemKind::Enum => "Enum",
        }
        .into(),
        name: Some(it.name.clone()),
        start: s,
        end: e,
        level: 0,
        qualified: Some(format!("{}.{}", doc.package_name(), it.name)),
        path: None,
    });
    if it.kind == ItemKind::Enum {
        for el in &it.elems {
            let (s, e) = span(r, el.name_tok, el.name_tok);
            out.push(RefSym {
                kind: "EnumElement".into(),
                name: Some(el.name.clone()),
                start: s,
                end: e,
                level: 1,
                qualified: Some(format!("{}::{}", it.name, el.name)),
                path: None,
            });
        }
        return out;
    }
    for (i, m) in it.members.iter().enumerate() {
        let p = format!("m{i}");
        match m {
            Member::Method(mm) => {
                let (s, e) = span(r, mm.name_tok, mm.name_tok);
                out.push(RefSym {
                    kind: "Method".into(),
                    name: Some(mm.name.clone()),
                    start: s,
                    end: e,
                    level: 1,
                    qualified: Some(format!("{}::{}", it.name, mm.name)),
                    path: None,
                });
                visit_type(&mut out, r, &mm.ret, &format!("{p}.ret"));
                for (j, a) in mm.args.iter().enumerate() {
                    let (s, e) = if a.name.is_some() {
                        span(r, a.name_tok, a.name_tok)
                    } else {
                        let e = r.end(a.ty.full.last);
                        (e, e)
                    };
                    out.push(RefSym {
                        kind: "Arg".into(),
                        name: a.name.clone(),
                        start: s,
                        end: e,
                        level: 2,
                        qualified: None,
                        path: None,
                    });
                    visit_type(&mut out, r, &a.ty, &format!("{p}.a{j}.type"));
                }
            }
            Member::Const(c) => {
                let (s, e) = span(r, c.name_tok, c.name_tok);
                out.push(RefSym {
                    kind: "Const".into(),
                    name: Some(c.name.clone()),
                    start: s,
                    end: e,
                    level: 1,
                    qualified: Some(format!("{}::{}", it.name, c.name)),
                    path: None,
                });
                visit_type(&mut out, r, &c.ty, &format!("{p}.type"));
            }
            Member::Field(f) => {
                let (s, e) = span(r, f.name_tok, f.name_tok);
                out.push(RefSym {
                    kind: "Field".into(),
                    name: Some(f.name.clone()),
                    start: s,
                    end: e,
                    level: 1,
                    qualified: Some(format!("{}::{}", it.name, f.name)),
                    path: None,
                });
                visit_type(&mut out, r, &f.ty, &format!("{p}.type"));
            }
        }
    }
    out
}

/// The sub-sequence a filter level yields: 0 items only, 1 items and their elements, 2 all.
pub fn at_level(all: &[RefSym], level: u8) -> Vec<RefSym> {
    all.iter().filter(|s| s.level <= level).cloned().collect()
}
