//! Parallel, deterministic exploration helpers.

use rayon::prelude::*;
use std::panic::{catch_unwind, AssertUnwindSafe};

/// Run `f(i)` for every i in 0..n on all cores. Panics inside `f` are caught and returned
/// as `Err(message)`; results come back in index order of the failing / interesting cases.
pub fn par_cases<R: Send, F>(n: usize, f: F) -> Vec<(usize, R)>
where
    F: Fn(usize) -> Option<R> + Sync,
{
    let mut v: Vec<(usize, R)> = (0..n)
        .into_par_iter()
        .filter_map(|i| f(i).map(|r| (i, r)))
        .collect();
    v.sort_by_key(|x| x.0);
    v
}

/// The getrandom shim (LD_PRELOAD, see /verif/shim): `arm(base)` makes the hash keys of the
/// calling thread a function of `base`.
#[derive(Clone, Copy)]
pub struct Shim {
    pub arm: extern "C" fn(u64),
    pub calls: extern "C" fn() -> u64,
}

extern "C" {
    fn dlsym(handle: *mut std::ffi::c_void, symbol: *const std::os::raw::c_char) -> *mut std::ffi::c_void;
}

pub fn shim() -> Option<Shim> {
    unsafe {
        let a = dlsym(std::ptr::null_mut(), b"verif_shim_arm\0".as_ptr() as *const _);
        let c = dlsym(std::ptr::null_mut(), b"verif_shim_calls\0".as_ptr() as *const _);
        if a.is_null() || c.is_null() {
            return None;
        }
        Some(Shim {
            arm: std::mem::transmute::<*mut std::ffi::c_void, extern "C" fn(u64)>(a),
            calls: std::mem::transmute::<*mut std::ffi::c_void, extern "C" fn() -> u64>(c),
        })
    }
}

/// Run `f` on a fresh thread whose hash keys derive from `base` (armed before the thread creates
/// its first RandomState): every hash-iteration order inside `f` is then a function of `base`
/// and of what `f` does, so a verdict can be replayed. Without the shim `f` still runs on a fresh
/// thread, with std's own keys. A fresh thread also means fresh thread-local state of the library
/// for every case (state that outlives a case is the business of the interference stage).
pub fn seeded<T: Send>(base: u64, f: impl FnOnce() -> T + Send) -> T {
    std::thread::scope(|s| {
        std::thread::Builder::new()
            .stack_size(16 << 20)
            .spawn_scoped(s, move || {
                if let Some(sh) = shim() {
                    (sh.arm)(base);
                }
                f()
            })
            .expect("spawn")
            .join()
            .unwrap_or_else(|e| std::panic::resume_unwind(e))
    })
}

/// Call `f`, turning a panic into Err(text).
pub fn guarded<T>(f: impl FnOnce() -> T) -> Result<T, String> {
    match catch_unwind(AssertUnwindSafe(f)) {
        Ok(v) => Ok(v),
        Err(e) => {
            let msg = if let Some(s) = e.downcast_ref::<&str>() {
                s.to_string()
            } else if let Some(s) = e.downcast_ref::<String>() {
                s.clone()
            } else {
                "panic (non-string payload)".to_string()
            };
            Err(msg)
        }
    }
}

/// Decode index `i` of the enumeration "all sequences of length exactly `len` over an
/// alphabet of size `base`" (most significant digit first).
pub fn digits(mut i: usize, base: usize, len: usize) -> Vec<usize> {
    let mut v = vec![0; len];
    for k in (0..len).rev() {
        v[k] = i % base;
        i /= base;
    }
    v
}

pub fn pow(base: usize, len: usize) -> usize {
    base.pow(len as u32)
}

/// All sequences of length 0..=max over `base` symbols: total count.
pub fn seq_total(base: usize, max: usize) -> usize {
    (0..=max).map(|l| pow(base, l)).sum()
}

/// Decode a global index into a sequence of length 0..=max (shortest first).
pub fn seq_at(mut i: usize, base: usize, max: usize) -> Vec<usize> {
    for l in 0..=max {
        let n = pow(base, l);
        if i < n {
            return digits(i, base, l);
        }
        i -= n;
    }
    panic!("index out of range");
}
