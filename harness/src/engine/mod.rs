//! Parallel, deterministic exploration helpers.

use rayon::prelude::*;
use std::panic::{catch_unwind, AssertUnwindSafe};

/// Run `f(i)` for every i in 0..n on all cores. Panics inside `f` are caught and returned
/// as `Err(message)`; results come back in index order of the failing / interesting cases.
pub fn par_cases<R: Send, F>(n: usize, f: F) -> Vec<(usize, R)>
where
    F: Fn(usize) -> Option<R> + Sync,
{
    let mut v: Vec<(usize, R)> = (0..n)
        .into_par_iter()
        .filter_map(|i| f(i).map(|r| (i, r)))
        .collect();
    v.sort_by_key(|x| x.0);
    v
}

/// Call `f`, turning a panic into Err(text).
pub fn guarded<T>(f: impl FnOnce() -> T) -> Result<T, String> {
    match catch_unwind(AssertUnwindSafe(f)) {
        Ok(v) => Ok(v),
        Err(e) => {
            let msg = if let Some(s) = e.downcast_ref::<&str>() {
                s.to_string()
            } else if let Some(s) = e.downcast_ref::<String>() {
                s.clone()
            } else {
                "panic (non-string payload)".to_string()
            };
            Err(msg)
        }
    }
}

/// Decode index `i` of the enumeration "all sequences of length exactly `len` over an
/// alphabet of size `base`" (most significant digit first).
pub fn digits(mut i: usize, base: usize, len: usize) -> Vec<usize> {
    let mut v = vec![0; len];
    for k in (0..len).rev() {
        v[k] = i % base;
        i /= base;
    }
    v
}

pub fn pow(base: usize, len: usize) -> usize {
    base.pow(len as u32)
}

/// All sequences of length 0..=max over `base` symbols: total count.
pub fn seq_total(base: usize, max: usize) -> usize {
    (0..=max).map(|l| pow(base, l)).sum()
}

/// Decode a global index into a sequence of length 0..=max (shortest first).
pub fn seq_at(mut i: usize, base: usize, max: usize) -> Vec<usize> {
    for l in 0..=max {
        let n = pow(base, l);
        if i < n {
            return digits(i, base, l);
        }
        i -= n;
    }
    panic!("index out of range");
}
