#!/usr/bin/env python3
"""Regenerates MANIFEST.json from the table below (kept in one place so it stays valid)."""
import json, subprocess

CHECKS = {
  # id: (technique, level text, level note, design ref)
}
def add(pid, technique, text, note, ref):
    CHECKS[pid] = (technique, text, note, ref)

add("C03", "bounded-exhaustive token-sequence / edit / prefix / character-string exploration of the real parser against an Earley recogniser over the transcribed CFG",
    "Every token sequence up to the stated length in 14 syntactic frames, every 1-edit (thorough: 2-edit) mutant and every prefix+1 of six seed documents, every keyword in every identifier slot and every atom string up to the stated length in three character frames is parsed by the real library; its verdict (tree / syntax diagnostics, before and after validation) is compared with a reference lexer + generic Earley recogniser. Exhaustive within those bounds; nothing sampled.",
    "trusted: reference lexer and CFG transcription (DESIGN.md appendices A/B), hook H1 read accessor; bounds: sequence length, edit distance, atom alphabets",
    "DESIGN.md section 4, C03")
add("C20", "exhaustive enumeration of error points (C03 spaces) with the parser's own expectation vector recorded by a hook as oracle",
    "For every syntax diagnostic produced on every case of the C03 spaces (including several recovered errors per parse) the set of token names in the message is compared with the expectation vector the generated parser handed to the formatter. One recorded known finding (second-to-last entry dropped); every other discrepancy is a violation.",
    "trusted: hook H2 (records the vector before formatting), closed lexicon for token names in messages",
    "DESIGN.md section 4, C20")

add("C02", "bounded-exhaustive document x layout exploration of the real parser against a generating document model",
    "Every document of finite families (all types to depth 3/4 in four positions, all member sequences to length 2/3, argument lists, every value / annotation / header form, near-keyword names in every slot, six seeds) is rendered in every layout of a finite layout set (default, minimal, uniform fillers incl. comments / CRLF / NBSP, every single-gap deviation, two-gap deviations on seeds), parsed and validated by the real library; the projected tree must equal the generating model in every layout. Exhaustive within those families; nothing sampled.",
    "trusted: document model / renderer / projection (independent of the library); bounds: type depth, sequence lengths, filler set, deviation count",
    "DESIGN.md section 4, C02")
add("C04", "bounded-exhaustive document x layout exploration with a token table as range oracle, plus all malformed cases of the C03 spaces",
    "For every (document, layout) case of the C02 space every name range and full range reported in the tree is compared with the offsets of the generator's token table; for these and for every malformed case of the C03 spaces every position in trees and diagnostics is checked for bounds, char boundary, line/column agreement, start<=end, nesting and sibling order, and every syntax diagnostic for covering exactly a token / the unlexable offset / the end of the last token (the first one: the first token that cannot continue a sentence).",
    "trusted: token table of the renderer, reference lexer + Earley recogniser for the offending token, unicode-segmentation for grapheme clusters",
    "DESIGN.md section 4, C04")

NOT_APPLICABLE = {}

def main():
    allp = [json.loads(l)["id"] for l in open("/verif/properties.jsonl")]
    commits = subprocess.run(["git","-C","/repo","log","--format=%h %s"],capture_output=True,text=True).stdout.splitlines()
    hook_commits = [c.split()[0] for c in commits if c.split(" ",1)[1].startswith("verif hooks")]
    m = {
      "version": 1,
      "setup_cmd": "./check build",
      "hooks": {
        "guard": "cargo feature `verif-hooks` of aidl-parser (off by default)",
        "enable": "harness/Cargo.toml: aidl-parser = { path = \"/repo\", features = [\"verif-hooks\"] }; ./check rebuilds the harness (and with it /repo's working tree) before every run",
        "baseline_off_cmd": "cd /repo && CARGO_NET_OFFLINE=true cargo nextest run --workspace --no-fail-fast --test-threads 8 --offline",
        "source_commits": hook_commits,
        "add_only": True
      },
      "engines": [
        {"name": "vharness", "path": "harness/", "serves_properties": sorted(CHECKS), "kind_free_text": "own Rust explorer (rayon): stateless bounded-exhaustive exploration of the real library over token-sequence trees, edit/prefix spaces, character trees, document and project products, operation histories and hash-order tuples, with a reference model (lexer, CFG + Earley recogniser, document renderer with token table, reference validator) as oracle"}
      ],
      "checks": [],
      "not_applicable": [],
      "notes": "Exit codes of every command: 0 property held on everything explored (KNOWN-FINDING lines allowed), 1 VIOLATION line printed, 2 machinery failure (build error, non-vacuity floor, replay divergence). Known findings: known-findings.txt. Design: DESIGN.md."
    }
    for pid in allp:
        if pid in CHECKS:
            t, text, note, ref = CHECKS[pid]
            m["checks"].append({
              "property_id": pid,
              "quick_cmd": f"./check {pid} quick",
              "thorough_cmd": f"./check {pid} thorough",
              "evidence_file": f"/verif/evidence/{pid}.json",
              "replay_cmd_template": "./check replay {path}",
              "engine": "vharness",
              "level_claimed": {"category": "model_checking", "text": text, "design_ref": ref},
              "level_note": note,
              "technique": t
            })
        else:
            m["not_applicable"].append({"property_id": pid, "reason": NOT_APPLICABLE.get(pid, "check not built yet in this round (planned: see DESIGN.md section 4); not claimed until its check exists and passes on the unchanged tree")})
    json.dump(m, open("/verif/MANIFEST.json","w"), indent=1)
    print("checks:", [c["property_id"] for c in m["checks"]], "not_applicable:", len(m["not_applicable"]))
main()
