#!/usr/bin/env python3
"""Regenerates MANIFEST.json from the table below (kept in one place so it stays valid)."""
import json, subprocess

CHECKS = {
  # id: (technique, level text, level note, design ref)
}
def add(pid, technique, text, note, ref):
    CHECKS[pid] = (technique, text, note, ref)

add("C03", "bounded-exhaustive token-sequence / edit / prefix / character-string exploration of the real parser against an Earley recogniser over the transcribed CFG",
    "Every token sequence up to length 2 (3 in the three body frames; thorough 3 / 4) in 16 syntactic frames, every single insertion / deletion / replacement / adjacent swap (thorough: every pair of edits on the two small seeds) and every prefix+1 of six seed documents, every keyword, literal, reserved word and near-keyword in each of 12 identifier slots, 13 words with non-ASCII word characters (letters, marks, connector punctuation, join controls; first / middle / last position) in those slots and 2 annotation-name slots, 77 hand-listed lexeme variants (identifiers spelled like terminal names, brace-value separators, forty warnings followed by a syntax error, 120 members), every document of the C02 corpus (one layout) and every atom string up to length 3-4 (thorough 4-5) in three character frames is parsed by the real library; its verdict (tree / syntax diagnostics, before and after validation) is compared with a reference lexer + generic Earley recogniser. Exhaustive within those bounds; nothing sampled.",
    "trusted: reference lexer and CFG transcription (DESIGN.md appendices A/B), hook H1 read accessor; bounds: sequence length, edit distance, atom alphabets",
    "DESIGN.md section 4, C03")
add("C20", "exhaustive enumeration of error points (C03 spaces) with the parser's own expectation vector recorded by a hook as oracle",
    "For every syntax diagnostic produced by the parse-error formatter on every case of the C03 spaces (including several recovered errors per parse) the set of token names in the message is compared with the expectation vector the generated parser handed to the formatter. One recorded known finding (second-to-last entry dropped); every other discrepancy is a violation.",
    "trusted: hook H2 (records the vector and the source span of the parse error before formatting; vectors are paired with diagnostics by span, never by wording), closed lexicon for token names in messages",
    "DESIGN.md section 4, C20")

add("C02", "bounded-exhaustive document x layout exploration of the real parser against a generating document model",
    "Every document of finite families (all types to depth 3/4 in four positions, all member sequences to length 2/3, argument lists, every value / annotation / header form, near-keyword names in every slot, a size family with 9-64 imports / members / arguments / elements / parameters / nesting levels, six seeds) is rendered in every layout of a finite layout set (default, minimal, uniform fillers incl. comments / CRLF / NBSP, every single-gap deviation, two-gap deviations on seeds), parsed and validated by the real library; the projected tree must equal the generating model in every layout. Exhaustive within those families; nothing sampled.",
    "trusted: document model / renderer / projection (independent of the library); bounds: type depth, sequence lengths, filler set, deviation count",
    "DESIGN.md section 4, C02")
add("C04", "bounded-exhaustive document x layout exploration with a token table as range oracle, plus all malformed cases of the C03 spaces",
    "For every (document, layout) case of the C02 space every name range and full range reported in the tree is compared with the offsets of the generator's token table; for these and for every malformed case of the C03 spaces every position in trees and diagnostics is checked for bounds, char boundary, line/column agreement, start<=end, nesting and sibling order, and every syntax diagnostic for covering exactly a token / the unlexable offset / the end of the last token (the first one: the first token that cannot continue a sentence).",
    "trusted: token table of the renderer, reference lexer + Earley recogniser for the offending token, unicode-segmentation for grapheme clusters",
    "DESIGN.md section 4, C04")

SEMA_NOTE = "trusted: reference validator transcribed from the statements (harness/src/model/sema.rs), document renderer / token table; diagnostics are matched by severity, range and related ranges, never by message text; bounds as stated"
add("C05", "exhaustive enumeration of import / declaration / project configurations (and replace / remove histories reaching them) on the real Parser against a reference resolution rule",
    "All subsets of <= 3 of 8 imports x all sets of 3 forward declarations x 8 (thorough 16) project contexts (5 952 / 11 904 configurations, 375 type references each); the observed file holds 15 adversarially similar names x 5 nesting depths x 5 positions (return, argument, field, interface constant, parcelable constant); supporting files include one with a recovered syntax error and a project item named like a built-in; every third configuration also in a layout with a comment and line break in every gap. Every type node's kind after validate() and every diagnostic on a type-name span is compared with the statement's rule; the same final projects are also reached through replace (with transient decoy contents), add-then-remove, reversed and replaced-by-a-file-without-a-tree histories (quick: every 5th configuration, thorough: all). Exhaustive over that product.",
    SEMA_NOTE, "DESIGN.md section 4, C05")
add("C06", "exhaustive enumeration of import lists x forward-declaration lists x bodies x project contexts against the statement's exactly-one-of table",
    "Every import list (with repetition) of length <= 2 (thorough <= 3) over 11 imports x every declaration list of length <= 2 (thorough <= 3) over 5 names x 2 bodies (every fifth case with a large header of 24 more imports and a type 20 levels deep) x 2 contexts (quick adds all import lists of length 3 with declaration lists <= 1); the multiset of validation diagnostics located in the header must equal the reference multiset (severity, statement, related statement).",
    SEMA_NOTE, "DESIGN.md section 4, C06")
add("C07", "exhaustive enumeration of ordered argument pairs over (category x direction) cells x oneway combinations against the statement's table",
    "All ordered pairs of 84 (category, direction) cells (21 category representatives reached through real multi-file resolution, beside mirror files that give every name the other kinds; every third argument annotated) x interface oneway x 4 method-oneway patterns x with/without a constant before a member (then all methods share one name), every cell alone, thorough: all 512 000 ordered triples; Errors on direction keywords / at argument type starts and the propagated oneway flags are compared with the reference.",
    SEMA_NOTE, "DESIGN.md section 4, C07")
add("C08", "exhaustive enumeration of container shapes to depth 3/4 over 21 leaf categories in 4 positions against the statement's element tables",
    "Every chain over {T[], List<T>, Map<String,T>, Map<T,String>} of depth <= 4 (thorough 5) over 21 leaf categories plus all Map<k,v> over leaf pairs and single chains of depth 6-24, in return / argument / field / constant position, under three headers (plain / importing the built-ins it uses / importing project items and declaring a parcelable named like built-ins), partly in a commented layout, packed 40 per file and unpacked at the next smaller depth; every validation diagnostic inside a type's extent is compared with the reference applied to every container node.",
    SEMA_NOTE, "DESIGN.md section 4, C08")
add("C09", "exhaustive enumeration of member sequences (append-one-member transition) against a reference single pass",
    "Every member sequence of length <= 4 (thorough 5) over 12 methods (3 names x {no code, 8, 010, 10}), a constant and a constant named like a method (every third sequence in a commented layout) plus interfaces of 9-40 methods with shuffled codes and far-apart repeats / late mixing; all diagnostics inside the interface body incl. related ranges are compared with the reference (first-occurrence bookkeeping, exactly one 'mixed' Error).",
    SEMA_NOTE, "DESIGN.md section 4, C09")
add("C10", "exhaustive enumeration of (interface oneway x method lists over oneway x return-type category) against the propagation / void rule",
    "Interface oneway x all method lists of length <= 2 over 38 forms (method oneway x 19 return-type categories), triples over 8 (thorough 38) forms, each plain / constant first / constant between / same method name / annotated methods, plus oneway interfaces of 8-40 methods; oneway flags in the returned tree, Warnings on `oneway` keywords and Errors on return types are compared with the reference.",
    SEMA_NOTE, "DESIGN.md section 4, C10")

add("C15", "exhaustive enumeration of generated trees x filter levels x predicate families against a reference visit order",
    "Every tree of the listed document families (types nested to depth 4/5 in 4 positions and in parcelable constants, member sequences, argument lists, headers, names, seeds) x 3 filter levels x all predicates of the forms 'is the k-th visited symbol' (stateful), 'is of kind K', 'name equals N'; walk / filter / find and the type, method and argument walkers are compared with the reference order derived from the document model.",
    "trusted: reference visit order (model/traverse.rs) and the token table for name spans", "DESIGN.md section 4, C15")
add("C16", "exhaustive enumeration of every (line, column) position of every generated document x layout x filter level against the reference order and token-table spans",
    "Documents of the C15 families in layouts with line breaks and multi-byte text before / inside names x every character position, positions past line ends, column 0, line 0 and last+1 x 3 filter levels; find_symbol_at_line_col must return the first symbol in reference order whose expected name span contains the position (inclusive), or nothing.",
    "trusted: token table spans, grapheme-cluster columns via unicode-segmentation", "DESIGN.md section 4, C16")
add("C17", "exhaustive enumeration of (item kind x package depth x referencing position x nesting x written form) five-file projects",
    "All 3 item kinds x 3 target names (ordinary / like a built-in) x 3 package depths x 4 positions x 4 (thorough 7) nesting contexts x 2-3 written forms x 2 layouts (target and referrers one token per line) x 3 (thorough 5) histories of a five-file project (target, suffix-named sibling, same-named item in another package, two referrers); get_qualified_name / get_name of every symbol of every file and Aidl::get_key are compared with the statement.",
    "trusted: document model, reference resolution rule; files whose traversal differs from the reference are skipped (C15)", "DESIGN.md section 4, C17")
add("C18", "exhaustive enumeration of (construct x situation x doc shape x style x EOL) against an expected documentation string built from the doc model",
    "Every documentable construct (20 instances over three host documents, annotated and plain) x 11 situations x 242 doc shapes incl. tags after a blank line and tag clauses continued on further lines (plus eight long or punctuation-rich shapes in six situations) (quick: all shapes for the plain doc-comment situation, 7 representatives for the others; thorough: all for all) x 4 rendering styles x LF/CRLF; the doc field of every documentable construct of the returned tree is compared with the expectation (None wherever the comment does not directly precede).",
    "trusted: doc model / renderer (model/docs.rs); statement's restrictions on comment content are the space's", "DESIGN.md section 4, C18")
add("C19", "exhaustive enumeration of trees over the optional-field presence product and all resolved kinds, RON round trip as oracle",
    "Every parse-stage and validated tree of the C02 document space, of the full presence product of optional fields (with empty / multi-paragraph / non-ASCII / CRLF documentation), of a multi-file project reaching every TypeKind and (thorough) of the 5 952 C05 configurations (both observed files) is serialised with ron and read back; equality with the original is required.",
    "trusted: ron 0.7, serde_json (triage only)", "DESIGN.md section 4, C19")

add("C01", "bounded-exhaustive input-shape exploration (character trees, token-sequence trees, edits, nasty fillers in every gap, parametric families, project assignments) in a supervised child process",
    "Every atom string up to length 3-5 in 7 character frames, every token sequence up to length 2 (thorough 3) in 16 frames, every single token edit of six seeds, every nasty filler in every token gap (thorough: pairs of gaps on the small seeds), nesting depth 0..64, sizes by doubling to 16 KiB (thorough 64 KiB), every assignment of 5 contents to <= 4 (thorough 6) ids, and an import x type-name soup (incl. oneway methods returning raw containers) are fed to add_content + validate under catch_unwind; the exploring process is supervised so that aborts, stack overflows and hangs are attributed to the case in flight. Oracle: returns, key set = id set, tags.",
    "trusted: wall-clock limits separate slow from hanging (120 s; 900 s for the size families); bounds: alphabets, lengths, depth 64, 64 KiB",
    "DESIGN.md section 4, C01")
add("C11", "exhaustive exploration of environment answers (hash-iteration orders) with owned seeds and a closure certificate, x insertion orders x histories x repeated calls",
    "30 colliding projects x insertion orders (quick 6, thorough all 24) x plain / replace histories (interim contents, a validation, the EOL twin of every file) x base keys of fresh threads x repeated validate() calls, plus the same projects in 4 (thorough 16) child processes and a cross-instance stage (every project in a fresh child process after every other project / after all others, earlier parsers dropped or kept alive: process-global and thread-local state); std's hash seeds are owned through an LD_PRELOAD getrandom shim, and seeds are enumerated until every hash container of <= 4 elements has been observed (hook H3) in all its iteration orders at every site (evidence lists observed / possible per site). All outputs of a project must be equal (trees by ==, diagnostic vectors element-wise) and every file's diagnostics ascending in (line, column).",
    "trusted: getrandom shim (self-tested each run), hook H3 observers; thread schedules are not explored (no synchronisation operations in the library)",
    "DESIGN.md section 4, C11")
add("C12", "explicit-state exploration of operation histories on the live Parser (cloned per branch) against a fresh parser built from the abstract id -> content map",
    "Full history trees from the empty parser (alphabet A: 34 operations incl. a blank file on disk, a recovered-then-fatal content, the CRLF twin of a content, the same item moved to a sub-package, a BOM-prefixed file, a 100 KB file and a non-canonical path, to depth 3 / 4; alphabet B: 11 operations to depth 4 / 6) and all suffixes of length 2 from 240 (thorough all 864) canonical abstract states, thorough also all suffixes of length 3 from the states with <= 2 files; after every transition validate() of the live object must equal validate() of a fresh parser holding the abstract map, and add_file must fail exactly when the model says so.",
    "trusted: hook H4 (derived Clone) for branching - every violation is re-confirmed by a from-scratch replay without clones; abstract states with one key in two kinds are explored like all others",
    "DESIGN.md section 4, C12")
add("C13", "explicit-state exploration of (observed file, project) states under single-file perturbations of the live parser, differential oracle",
    "7 observed files x every set of <= 2 (thorough 3) of 29 other files x every single-file perturbation (add / drop / swap / replace in place; quick tier, two-file bases: swap and replace-in-place alternate over the other files) applied to the already validated live parser; all observations with equal (observed text, per-import registered?/kind) must be equal; kind changes must be observable (negative control).",
    "trusted: hook H4 (Clone); violations re-confirmed by replaying both plain histories; for a key registered with two kinds the fact is the set of kinds",
    "DESIGN.md section 4, C13")
add("C14", "bounded-exhaustive token-string exploration of malformed members in member frames against sibling-preservation and locality oracles",
    "Item kind (3) x position (first / middle / last) x every token string of length <= 2 (middle position 3; thorough 3 / 4) over the vocabulary minus terminators and braces, plus all fused pairs of well-formed members and 8 token patterns repeated 1..24, 32, 40, 48, 64 and 96 times, in three layouts (one line / LF lines / CRLF lines), kept when the Earley recogniser says the string is not a member and is detectably dead by its terminator; oracle: tree present, siblings intact in order (parse-stage tree against the model; validated tree against the validated document without the malformed member), >= 1 syntax Error, every syntax diagnostic inside the malformed member's extent.",
    "trusted: CFG transcription + Earley recogniser for membership, token table for the extent, hook H1",
    "DESIGN.md section 4, C14")

NOT_APPLICABLE = {}

def main():
    allp = [json.loads(l)["id"] for l in open("/verif/properties.jsonl")]
    commits = subprocess.run(["git","-C","/repo","log","--format=%h %s"],capture_output=True,text=True).stdout.splitlines()
    hook_commits = [c.split()[0] for c in commits if c.split(" ",1)[1].startswith("verif hooks")]
    m = {
      "version": 1,
      "setup_cmd": "./check build",
      "hooks": {
        "guard": "cargo feature `verif-hooks` of aidl-parser (off by default)",
        "enable": "harness/Cargo.toml: aidl-parser = { path = \"/repo\", features = [\"verif-hooks\"] }; ./check rebuilds the harness (and with it /repo's working tree) before every run",
        "baseline_off_cmd": "cd /repo && CARGO_NET_OFFLINE=true cargo nextest run --workspace --no-fail-fast --test-threads 8 --offline",
        "source_commits": hook_commits,
        "add_only": True
      },
      "engines": [
        {"name": "vharness", "path": "harness/", "serves_properties": sorted(CHECKS), "kind_free_text": "own Rust explorer (rayon): stateless bounded-exhaustive exploration of the real library over token-sequence trees, edit/prefix spaces, character trees, document and project products, operation histories and hash-order tuples, with a reference model (lexer, CFG + Earley recogniser, document renderer with token table, reference validator) as oracle"}
      ],
      "checks": [],
      "not_applicable": [],
      "notes": "Exit codes of every command: 0 property held on everything explored (KNOWN-FINDING lines allowed), 1 VIOLATION line printed, 2 machinery failure (build error, non-vacuity floor, replay divergence). Known findings: known-findings.txt. Design: DESIGN.md. Common to all checks (DESIGN.md 9.4b): the getrandom shim is preloaded, cases run in chunks of consecutive indices on fresh threads with owned hash keys, a failing case is re-run alone to tell 'fails by itself' from 'fails after its predecessors' (both replayable), and an interference stage runs ordered pairs / the whole list / a long repeated run of representative cases in fresh single-threaded child processes."
    }
    for pid in allp:
        if pid in CHECKS:
            t, text, note, ref = CHECKS[pid]
            m["checks"].append({
              "property_id": pid,
              "quick_cmd": f"./check {pid} quick",
              "thorough_cmd": f"./check {pid} thorough",
              "evidence_file": f"/verif/evidence/{pid}.json",
              "replay_cmd_template": "./check replay {path}",
              "engine": "vharness",
              "level_claimed": {"category": "model_checking", "text": text, "design_ref": ref},
              "level_note": note + ("" if pid in ("C11", "C12", "C13", "C01") else "; hash keys owned per chunk (getrandom shim), interference stage over representative cases (DESIGN.md 9.4b)"),
              "technique": t
            })
        else:
            m["not_applicable"].append({"property_id": pid, "reason": NOT_APPLICABLE.get(pid, "check not built yet in this round (planned: see DESIGN.md section 4); not claimed until its check exists and passes on the unchanged tree")})
    json.dump(m, open("/verif/MANIFEST.json","w"), indent=1)
    print("checks:", [c["property_id"] for c in m["checks"]], "not_applicable:", len(m["not_applicable"]))
main()
