// LD_PRELOAD interposer: makes the seeds of std's RandomState a function of a value the
// harness chooses (per thread), so that hash-table iteration orders are owned and replayable.
//
// std::sys::random on Linux calls getrandom(2) through the libc symbol `getrandom`.
// While the harness has armed the shim on the current thread, getrandom() fills the buffer
// from a deterministic counter stream derived from (base key, call number); otherwise it
// forwards to the real implementation.
#define _GNU_SOURCE
#include <dlfcn.h>
#include <stddef.h>
#include <stdint.h>
#include <string.h>
#include <sys/types.h>

static __thread int armed = 0;
static __thread uint64_t state = 0;
static __thread uint64_t calls = 0;

static uint64_t splitmix(uint64_t *s) {
    uint64_t z = (*s += 0x9e3779b97f4a7c15ULL);
    z = (z ^ (z >> 30)) * 0xbf58476d1ce4e5b9ULL;
    z = (z ^ (z >> 27)) * 0x94d049bb133111ebULL;
    return z ^ (z >> 31);
}

// called by the harness (looked up with dlsym)
void verif_shim_arm(uint64_t base) { armed = 1; state = base; }
void verif_shim_disarm(void) { armed = 0; }
uint64_t verif_shim_calls(void) { return calls; }
int verif_shim_present(void) { return 1; }

ssize_t getrandom(void *buf, size_t buflen, unsigned int flags) {
    if (armed) {
        calls++;
        unsigned char *p = (unsigned char *)buf;
        size_t i = 0;
        while (i < buflen) {
            uint64_t v = splitmix(&state);
            size_t n = buflen - i < 8 ? buflen - i : 8;
            memcpy(p + i, &v, n);
            i += n;
        }
        return (ssize_t)buflen;
    }
    static ssize_t (*real)(void *, size_t, unsigned int) = 0;
    if (!real) real = (ssize_t (*)(void *, size_t, unsigned int))dlsym(RTLD_NEXT, "getrandom");
    if (!real) return -1;
    return real(buf, buflen, flags);
}
